#!/usr/bin/env python3
"""Merges detection matrices: the latest row per (seeded change, check) wins.
usage: merge_detection.py <out.tsv> <older.tsv> ... <newest.tsv>"""
import sys, collections
out, files = sys.argv[1], sys.argv[2:]
rows = collections.OrderedDict()
for f in files:
    for l in open(f):
        l = l.rstrip('\n')
        if not l.strip():
            continue
        c = l.split('\t')
        if len(c) < 4 or c[2] == 'patch-does-not-apply' or not c[3]:
            continue  # a run that produced no verdict line does not replace an earlier one
        rows[(c[0], c[1])] = l
def key(k):
    return (k[0].split('-')[0], k[0], k[1])
with open(out, 'w') as f:
    for k in sorted(rows, key=key):
        f.write(rows[k] + '\n')
print(len(rows), 'rows')
