#!/usr/bin/env python3
"""Regenerates /verif/MANIFEST.json from the per-property texts below and /repo's git log."""
import json, subprocess

log = subprocess.check_output(["git", "-C", "/repo", "log", "--format=%h %s"]).decode().splitlines()
hook_commits = [l.split()[0] for l in log if l.split(' ', 1)[1].startswith("verif hooks")][::-1]
fix_commits = [l for l in log if l.split(' ', 1)[1].startswith("fix:")][::-1]

T = {
 "C01": ("offline oracle over recorded sequential histories: ground-truth log (harness-side map with timestamps) judges every get / contains_key / iteration item, also beside injected callback panics, beyond one purge batch and centuries after the cache was built; concurrent history checker on chase / storm programs",
         "Held on the executions produced: every lookup of ~3x10^5 (quick) to ~8x10^6 (thorough) seeded histories over both cache kinds and the configuration lattice is judged against a harness-side ground-truth log; histories include long ones (200-400 ops) that reach the 64-op flush points without sync(). Sampling, not exhaustion."),
 "C02": ("randomized schedule exploration at hooked switch points (serialized seeded scheduler, replayable) + free-running stress/chase workloads + offline per-key history checker (necessary conditions of linearizability)",
         "Held on the sampled schedules. The property text mentions exhaustive exploration up to a preemption bound: that is not done (enumeration belongs to another technique); distinct interleavings (trace hashes) and a saturation count are reported instead. One-thread histories on the concurrent cache are judged as degenerate interleavings too."),
 "C03": ("transition monitor with a one-step / one-batch reference model fed by the hooked pre-state; must-live rules on lookups; concurrent must-live-at-quiescence rule and refill probe",
         "Held on the executions produced, except the recorded consequences of the known findings F-S3 / F-S5 (capacity taken by an entry that maintenance should have purged), attributed by exact cause."),
 "C04": ("invariant at quiescent points on the hooked snapshot (sum of resident weights) + sampled overshoot bound in un-synced bursts + counters-low drift after concurrent phases (debug, release and unoptimized builds)",
         "Held on the executions produced."),
 "C05": ("ground-truth deadline oracle over histories with boundary-targeted clock advances; bulk histories above one purge batch; iterators held across clock advances; histories with injected callback panics (the oracle follows the physical outcome of a faulted operation); far-future scenarios (time-to-live of 600 / 1000 years); concurrent expiry chase (no get returns a value written a full period before it began)",
         "Held on the executions produced."),
 "C06": ("ground-truth deadline oracle (idle deadline = latest insert / update / successful get) with boundary-targeted clock advances; bulk histories; iterators held across clock advances; injected callback panics (a get that panicked is no access); read bursts beyond the read log; concurrent expiry chase judged by a least-fixpoint justification rule over the recorded call / return intervals",
         "Held on the executions produced."),
 "C07": ("ground-truth history oracle (targets invisible for good, everything else retrievable) + concurrent history checker with invalidations as superseding operations + must-live-at-quiescence rule",
         "Held on the executions produced."),
 "C08": ("sanitizers and interpreters over hostile workloads incl. injected faults (panics in the caller's own callbacks): native debug (panic hook + structural walker), ASan+LSan, Miri; thorough adds TSan, Tree Borrows, valgrind memcheck",
         "No violation observed on the executions produced by three independent observers. A clean sanitizer run is not a proof of memory safety; Miri runs the tagged-pointer code under permissive provenance."),
 "C09": ("bounded-progress monitoring: logical deadlock / livelock detection in a serialized scheduler (no runnable thread, step budget, retry bound), progress guard on the maintenance loops, thread-state deadlock criterion (every thread seen blocked, never runnable, no CPU time) incl. a sentinel for the main thread and a writer beside pure observers, maintenance flag at quiescence",
         "Unbounded liveness cannot be decided by a finite run: restated as bounded progress and decided on logical evidence. Wall-clock watchdogs only make a run inconclusive."),
 "C10": ("invariant at quiescent points: counters vs hooked snapshot of what is physically held, held weights vs the caller's weigher (sequential, at faulted operations, after concurrent phases, in debug / release / unoptimized builds)",
         "Held on the executions produced, except the known finding F-S3 (entries hidden by invalidate_all that the purge scan cannot reach), attributed by an exact state predicate."),
 "C11": ("drop-tracking key/value types with a live-object registry, checked at quiescent points and after drop; dead entries released after maintenance; LSan / Miri leak checks",
         "Held on the executions produced, except the known findings F-S3 and F-S5 (entries that maintenance does not release)."),
 "C12": ("transition monitor: shortest-LRU-prefix prediction from the hooked pre-state (per call in exact mode, per un-synced batch otherwise) + recency-order cross-check",
         "Held on the executions produced."),
 "C13": ("transition monitor: admission outcome predicted from the implementation's own popularity estimates read through a hook (per call in exact mode, per un-synced batch otherwise)",
         "Held on the executions produced; equal-estimate decisions and multi-victim admissions are generated on purpose and counted."),
 "C14": ("online reference-model monitor on the real sketch (facade) + popularity-table comparison around every cache API call",
         "Held on the executions produced; bounded-exhaustive only over tiny universes (3 hashes x 9-13 steps at capacities 0..3), sampled otherwise."),
 "C15": ("metamorphic pairs (history vs history plus extra observations, also with un-synced operations) compared on results and hooked state; concurrent form: a deterministic single-writer program alone vs beside threads that only observe (contains_key, iteration, held entry references, counters)",
         "Held on the pairs produced."),
 "C16": ("ground-truth multiset oracle for sequential iteration (also with the clock advancing under a live iterator) + free-running writers / churn / iterators stress with recorded operation intervals + must-live-at-quiescence rule",
         "Held on the executions produced."),
 "C17": ("exhaustive enumeration of the builder lattice at boundary values + sampled differential histories between equivalent configurations (with / without initial_capacity; a capacity above u32::MAX with weights in units of f against the same history scaled down by f)",
         "The lattice part is exhaustive (12288 builder combinations); behavioural equivalence is sampled."),
}
eng = {"C01": "seqmon", "C02": "conmon+seqmon", "C03": "seqmon+conmon", "C04": "seqmon+conmon", "C05": "seqmon", "C06": "seqmon", "C07": "seqmon+conmon",
       "C08": "seqmon+conmon+dequemon+sketchmon under dbg/asan/miri (+tsan, valgrind)", "C09": "conmon+seqmon", "C10": "seqmon+conmon",
       "C11": "seqmon+conmon+dequemon under dbg/asan/miri (+tsan, valgrind)", "C12": "seqmon", "C13": "seqmon", "C14": "sketchmon+seqmon", "C15": "seqmon (pure mode)",
       "C16": "seqmon+conmon", "C17": "cfgmon"}
checks = []
for pid in sorted(T):
    tech, text = T[pid]
    checks.append({
        "property_id": pid,
        "quick_cmd": "./check %s --tier quick" % pid,
        "thorough_cmd": "./check %s --tier thorough" % pid,
        "evidence_file": "/verif/evidence/%s.json" % pid,
        "replay_cmd_template": "./check %s --replay {path}" % pid,
        "engine": eng[pid],
        "level_claimed": {"category": "exploration", "text": text, "design_ref": "DESIGN.md section 6 (%s), sections 11-15" % pid},
        "level_note": "Trusted base: the cfg(mini_moka_verif) hooks (add-only observers), the harness' ground-truth log / reference models, rustc + the sanitizer runtimes / Miri. Verdicts are three-valued (held / violated / inconclusive); exit 2 = inconclusive (build failure, watchdog, coverage floor missed).",
        "technique": "runtime monitoring: " + tech,
    })
m = {"version": 1,
     "setup_cmd": "./check --setup",
     "hooks": {"guard": "--cfg mini_moka_verif",
               "enable": "RUSTFLAGS='--cfg mini_moka_verif' set by ./check for every build of /verif/harness (path dependency on /repo); sanitizer variants add -Zsanitizer=address|thread on the nightly toolchain; Miri via cargo +nightly miri run",
               "baseline_off_cmd": "cd /repo && cargo test --workspace --no-fail-fast --offline",
               "source_commits": hook_commits, "add_only": True},
     "engines": [
         {"name": "seqmon", "path": "/verif/harness/src/bin/seqmon.rs", "serves_properties": ["C01", "C02", "C03", "C04", "C05", "C06", "C07", "C08", "C09", "C10", "C11", "C12", "C13", "C14", "C15", "C16"],
          "kind_free_text": "E1: seeded sequential histories on both cache kinds under a transition monitor (ground-truth log, one-step and one-batch reference models fed with hooked pre-state, structural walker, counters, live-object registry, sketch comparison, progress guard, deadlock watcher); metamorphic pure mode for C15"},
         {"name": "conmon", "path": "/verif/harness/src/bin/conmon.rs", "serves_properties": ["C02", "C03", "C04", "C07", "C08", "C09", "C10", "C11", "C16"],
          "kind_free_text": "E2: concurrent programs on sync::Cache under a serialized random scheduler at hooked switch points (replayable) and free-running (stress, chase); per-key history checker; quiescence monitors; bursts; iteration stress"},
         {"name": "sketchmon", "path": "/verif/harness/src/bin/sketchmon.rs", "serves_properties": ["C14", "C08"], "kind_free_text": "E3: the real FrequencySketch against an exact reference"},
         {"name": "dequemon", "path": "/verif/harness/src/bin/dequemon.rs", "serves_properties": ["C08", "C11"], "kind_free_text": "E4: the real intrusive Deque through a handle facade against a VecDeque model"},
         {"name": "cfgmon", "path": "/verif/harness/src/bin/cfgmon.rs", "serves_properties": ["C17"], "kind_free_text": "E5: builder lattice and differential histories"},
     ],
     "checks": checks,
     "notes": "All checks are runtime monitors / sanitizers over executions of the real code built from /repo's working tree. Known findings: /verif/known_findings.json (families F-S3 and F-S5). fix: commits in /repo: " + "; ".join(fix_commits),
     "not_applicable": []}
json.dump(m, open('/verif/MANIFEST.json', 'w'), indent=1)
print("hooks:", hook_commits, "fixes:", len(fix_commits))
