"""Per-property check plans: which engines run, with which workloads, and the coverage floors.

A plan is a dict:
  variants     build variants needed (see VARIANTS in ../check)
  jobs         function(bindirs, workdir, known_sigs) -> list of job dicts
  floors       {observed counter: minimum} below which the run is inconclusive
  rule         how cases are generated and what makes one non-trivial / distinct
  assumptions  what the check trusts
"""
import os

COMMON_ASSUMPTIONS = [
    "verdicts hold for the executions produced by this run only (sampling, not exhaustion)",
    "hooks (--cfg mini_moka_verif) are add-only observers: mock clock, snapshots, switch points",
    "the harness' ground-truth log (a map with timestamps) is the specification of lookups",
    "deterministic test hashers (seeded mixer, identity, 2-bucket colliding) stand in for RandomState",
]


def seq_jobs(bindir, workdir, known, prop, profile, total, ops, seed, nshards, extra=None, prefix="seq", mode=None):
    jobs = []
    per = max(1, total // nshards)
    for s in range(nshards):
        out = os.path.join(workdir, "%s-%s-%d.json" % (prefix, profile, s))
        argv = [os.path.join(bindir, "seqmon"), "--prop", prop, "--profile", profile,
                "--seed", str(seed * 100003 + s * 7919 + hash_str(profile + prefix) % 1000),
                "--histories", str(per), "--ops", str(ops), "--out", out,
                "--known", ",".join(known)]
        if mode:
            argv += ["--mode", mode]
        if extra:
            argv += extra
        jobs.append(dict(name="%s-%s-%d" % (prefix, profile, s), argv=argv, out=out, kind="report"))
    return jobs


def hash_str(s):
    h = 0
    for c in s:
        h = (h * 131 + ord(c)) % 1000003
    return h


def scale(tier, quick, thorough):
    return thorough if tier == "thorough" else quick


SEQ = {
    # pid: (profiles [(name, share)], ops, quick total, thorough total, floors(quick), rule)
    "C01": ([("general", 6), ("invalidate", 2), ("capacity", 2)], 50, 320000, 8000000,
            {"lookups_with_queued_writes": 1000, "lookups_get_hit": 5000, "lookups_iter_item": 2000, "updates": 2000,
             "histories_sync": 1000, "histories_unsync": 1000},
            "seeded random histories over both cache kinds and the configuration lattice (capacity none/0..16, weigher with weights 0..>capacity, "
            "ttl, tti, hashers incl. colliding, sync() placement every-op or sparse); every get/contains_key/iter item is judged against the "
            "ground-truth log. Non-trivial: the history looked up a key that had been updated before, or looked up while writes of the "
            "concurrent cache were still queued; distinct by fingerprint of (config, op sequence)."),
    "C03": ([("loss", 6), ("general", 2), ("invalidate", 2)], 50, 320000, 8000000,
            {"fitting_inserts_into_previously_full_cache": 1000, "fitting_inserts": 5000, "lookups_get_miss": 5000},
            "histories biased to fill -> expire/invalidate -> refill and to ops left queued across invalidate_all/update; every live key "
            "that is held but invisible, or lost without capacity pressure, and (exact mode) every resident set that differs from the "
            "one-step reference model fed with the implementation's own pre-state is a violation. Non-trivial: a fitting insert into a "
            "cache that had been full before; distinct by fingerprint."),
    "C04": ([("capacity", 7), ("lru", 3)], 50, 320000, 8000000,
            {"quiescent_points_with_full_cache": 1000, "oversized_inserts": 500, "growth_evictions": 200},
            "bounded caches with weigher (weights 0, 1, 2, 3, cap/2, cap, cap+1, 2cap+1), growing/shrinking updates, expiry and invalidation; at every "
            "quiescent point the weights physically held (hook snapshot) must be <= max_capacity except the excess of a just-grown "
            "entry on the single-threaded cache. Non-trivial: a quiescent point with the cache full or a growth eviction; distinct by fingerprint."),
    "C05": ([("ttl", 10)], 40, 320000, 8000000,
            {"lookups_exactly_at_ttl_deadline": 1000, "lookups_1ns_before_ttl_deadline_visible": 300, "lookups_1ns_after_ttl_deadline": 100},
            "ttl in {0,1,2,10,1e3,1e6,5e8,1e9,3e9,1e15 ns} (alone and with tti); clock advances land on deadline-1ns / deadline / deadline+1ns of the "
            "ground-truth deadlines; every lookup at a reading >= last write + ttl that sees the entry is a violation. Non-trivial: a lookup "
            "exactly at a ttl deadline; distinct by fingerprint."),
    "C06": ([("tti", 10)], 40, 320000, 8000000,
            {"lookups_exactly_at_tti_deadline": 1000, "lookups_1ns_before_tti_deadline_visible": 300, "lookups_1ns_after_tti_deadline": 100},
            "as C05 for time_to_idle: the deadline is (latest of insert, update, successful get) + tti; contains_key and iter never count as access. "
            "Non-trivial: a lookup exactly at an idle deadline; distinct by fingerprint."),
    "C07": ([("invalidate", 8), ("general", 2)], 50, 320000, 8000000,
            {"reinsertions_after_invalidation": 1000, "invalidate_all_with_reads_queued": 100, "invalidate_calls": 2000, "invalidate_all_calls": 1000,
             "invalidate_entries_if_calls": 500},
            "the three invalidation forms anywhere, incl. while inserts/reads of the same keys are queued, re-insertion right after, probes afterwards; "
            "targets must be invisible for good, everything else must stay retrievable (same must-live rule as C03). Non-trivial: a key was "
            "re-inserted after an invalidation; distinct by fingerprint."),
    "C10": ([("counters", 7), ("capacity", 3)], 50, 320000, 8000000,
            {"counter_checks_after_invalidate": 1000, "counter_checks_after_invalidate_all": 500, "counter_checks_after_invalidate_entries_if": 300,
             "counter_checks_after_entries_left": 2000, "growth_evictions": 100, "admission_decisions_reject": 500},
            "at every quiescent point entry_count()/weighted_size() are compared with the entries physically held (hook snapshot); after maintenance "
            "no invalidated entry may still be held. Non-trivial: a quiescent point right after entries left the cache; distinct by fingerprint."),
    "C12": ([("lru", 10)], 50, 320000, 8000000,
            {"admissions_with_2_victims": 100, "growth_evictions_multi_victim": 100, "evictions_with_zero_weight_victim": 50, "recency_order_checks": 10000},
            "exact mode only (single-threaded cache; concurrent cache with sync() after every op), capacities 1..16, unit and variable weights: the set "
            "removed by each call is compared with the shortest-LRU-prefix prediction computed from the implementation's pre-state, and the "
            "probation order with the ground-truth recency order. Non-trivial: an admission with victims or a growth eviction; distinct by fingerprint."),
    "C13": ([("admission", 10)], 50, 320000, 8000000,
            {"admission_decisions_admit": 1000, "admission_decisions_reject": 1000, "admission_decisions_with_equal_estimates": 500,
             "admissions_with_2_victims": 100},
            "exact mode only: for every insert of a new key that does not fit, admitted/rejected and the victims are predicted from the "
            "implementation's own popularity estimates read just before the call. Non-trivial: a history with an admission decision; distinct by fingerprint."),
    "C16": ([("iter", 10)], 50, 320000, 8000000,
            {"iterations": 5000, "iter_items": 5000},
            "sequential clause: every iteration is compared with the ground truth as a multiset (no duplicates, nothing dead, every must-live key). "
            "Non-trivial: an iteration that yielded >= 2 entries; distinct by fingerprint."),
}


def plan_seq(pid, tier, seed, ncpu):
    profiles, ops, q, t, floors, rule = SEQ[pid]
    total = scale(tier, q, t)
    mult = total / float(q)
    shares = sum(s for _, s in profiles)

    def jobs(bindirs, workdir, known):
        js = []
        for (p, s) in profiles:
            n = max(1, (ncpu * s) // shares)
            js += seq_jobs(bindirs["dbg"], workdir, known, pid, p, total * s // shares, ops, seed, n)
        return js

    return dict(variants=["dbg"], jobs=jobs,
                floors={k: int(v * (1 if tier == "quick" else min(mult, 10))) for k, v in floors.items()},
                rule=rule, assumptions=COMMON_ASSUMPTIONS, watchdog_s=scale(tier, 600, 3600))


def plan_c15(pid, tier, seed, ncpu):
    total = scale(tier, 160000, 4000000)

    def jobs(bindirs, workdir, known):
        return seq_jobs(bindirs["dbg"], workdir, known, pid, "pure", total, 40, seed, ncpu, mode="pure", prefix="pure")

    fl = {"pairs_with_extra_call_on_lru_entry": 1000, "pairs_with_extra_call_on_candidate_before_insert": 1000,
          "pairs_with_extra_call_within_1_tick_of_idle_deadline": 100, "pairs_sync": 1000, "pairs_unsync": 1000}
    return dict(variants=["dbg"], jobs=jobs, floors=fl,
                rule="metamorphic pairs: a base history h (tti and tight capacities) and h' = h plus extra contains_key/iter calls at random positions, "
                     "biased to the LRU entry, to entries within one tick of their idle deadline and to candidate keys right before their insert; after "
                     "every base op both runs must agree on the op result, the popularity table (bit-identical), live entries with timestamps and the "
                     "recency order (concurrent cache: the whole physical snapshot). Non-trivial: a pair in which an extra call hit one of the three "
                     "targets; distinct by fingerprint of (config, base ops, number of extras).",
                assumptions=COMMON_ASSUMPTIONS + ["iter results are compared only when neither run has a size eviction pending (C04 allows that transient)"],
                watchdog_s=scale(tier, 600, 3600))


def con_jobs(bindir, workdir, known, prop, mode, seed, nshards, programs=0, schedules=0, rounds=0, variant="dbg", watchdog_s=None):
    jobs = []
    for s in range(nshards):
        out = os.path.join(workdir, "con-%s-%s-%d.json" % (variant, mode, s))
        argv = [os.path.join(bindir, "conmon"), "--prop", prop, "--mode", mode,
                "--seed", str(seed * 100003 + s * 104729 + hash_str(mode) % 1000),
                "--out", out, "--known", ",".join(known)]
        if programs:
            argv += ["--programs", str(max(1, programs // nshards)), "--schedules", str(schedules)]
        if rounds:
            argv += ["--rounds", str(max(1, rounds // nshards))]
        j = dict(name="con-%s-%s-%d" % (variant, mode, s), argv=argv, out=out, kind="report")
        if watchdog_s:
            j["watchdog_s"] = watchdog_s
        jobs.append(j)
    return jobs


CON_ASSUMPTIONS = COMMON_ASSUMPTIONS + [
    "schedules are sampled at the granularity of the instrumented switch points (serialized random scheduler: uniform, sticky, PCT-like with 3 change points, "
    "maintainer-starving, maintainer-parking) and by free-running threads with injected delays; they are not exhausted, and interleavings inside "
    "DashMap / crossbeam-channel / triomphe are below that granularity",
    "the per-key history checker applies necessary conditions of linearizability only (unique values make every read identify its write), so it cannot alarm on a correct cache",
    "wall-clock watchdogs end a run as inconclusive; deadlock and livelock are decided on the scheduler's logical state (no runnable thread / step budget)",
]


def plan_c02(pid, tier, seed, ncpu):
    progs = scale(tier, 6400, 160000)
    stress = scale(tier, 1600, 48000)

    def jobs(bindirs, workdir, known):
        js = con_jobs(bindirs["dbg"], workdir, known, pid, "baton", seed, max(1, ncpu * 3 // 4), programs=progs, schedules=scale(tier, 20, 50))
        js += con_jobs(bindirs["dbg"], workdir, known, pid, "stress", seed, max(1, ncpu // 4), programs=stress, schedules=scale(tier, 10, 20))
        return js

    m = 1 if tier == "quick" else 10
    return dict(variants=["dbg"], jobs=jobs,
                floors={"overlapping_read_write_pairs": 1000 * m, "runs_with_maintenance_nested_in_an_operation": 100 * m, "distinct_interleavings": 1000 * m,
                        "gets_judged": 5000 * m, "quiescence_checks": 1000 * m},
                rule="random small programs (2-4 threads x 1-6 ops over insert/get/contains_key/invalidate/invalidate_all(+clock tick)/sync on 1-3 keys, capacity 1..4/none, "
                     "ttl/tti/weigher on or off), each run under several seeded schedules of the serialized scheduler and free-running with injected delays (plus larger "
                     "programs: up to 16 threads x 400 ops); every get is checked against the recorded call/return history: no phantom or future value, no value superseded by "
                     "an insert/invalidate/effective invalidate_all that completed before the get began, per-reader monotonicity per writer, final state = nothing or a "
                     "maximal write. Non-trivial: a program with a get overlapping a write of its key or with maintenance nested in an operation; distinct by program "
                     "fingerprint (distinct interleavings, by trace hash, are reported separately).",
                assumptions=CON_ASSUMPTIONS, watchdog_s=scale(tier, 900, 7200))


def plan_c09(pid, tier, seed, ncpu):
    def jobs(bindirs, workdir, known):
        js = con_jobs(bindirs["dbg"], workdir, known, pid, "baton", seed, max(1, ncpu // 4), programs=scale(tier, 1600, 40000), schedules=scale(tier, 20, 40))
        js += con_jobs(bindirs["dbg"], workdir, known, pid, "park", seed, max(1, ncpu // 2), programs=scale(tier, 320, 8000), schedules=scale(tier, 5, 10))
        js += con_jobs(bindirs["dbg"], workdir, known, pid, "burst1", seed, 2, rounds=scale(tier, 40, 1000))
        js += con_jobs(bindirs["dbg"], workdir, known, pid, "burstn", seed, 2, rounds=scale(tier, 12, 200))
        js += con_jobs(bindirs["dbg"], workdir, known, pid, "stress", seed, 2, programs=scale(tier, 200, 6000), schedules=scale(tier, 5, 10))
        if tier == "thorough":
            js += con_jobs(bindirs["rel"], workdir, known, pid, "burst1", seed + 7, 2, rounds=400, variant="rel")
            js += con_jobs(bindirs["rel"], workdir, known, pid, "burstn", seed + 7, 2, rounds=100, variant="rel")
        return js

    m = 1 if tier == "quick" else 10
    return dict(variants=["dbg"] + (["rel"] if tier == "thorough" else []), jobs=jobs,
                floors={"backoff_events": 100 * m, "maintainer_parks": 100 * m, "bursts_within_sync_interval": 4 * m, "bursts_beyond_sync_interval": 4 * m,
                        "maintenance_runs_during_bursts": 100 * m, "scheduler_steps": 100000 * m},
                rule="bounded progress instead of unbounded liveness: (1) small programs and contention programs (one thread may be parked inside maintenance at a phase point "
                     "while others issue > write-queue-size inserts) under the serialized scheduler: deadlock = unfinished threads but none runnable, livelock = step budget "
                     "(20000 + 4000 x ops) exhausted; (2) single-threaded bursts of 10 x 384 un-synced operations in both housekeeping regimes (clock within / beyond the "
                     "500 ms periodical-sync interval): more than 2 retries of one write op at the back-off hook, or no maintenance run at all, is a violation; (3) at every "
                     "quiescence the maintenance flag must be clear and the queues drained by sync(). Non-trivial: a contention program or a burst; distinct by program "
                     "fingerprint / (seed, round).",
                assumptions=CON_ASSUMPTIONS + ["unbounded 'every call returns' is restated as bounded progress; a finite run cannot decide liveness beyond its bounds"],
                watchdog_s=scale(tier, 900, 7200))


def plan_for(pid, tier, seed, ncpu):
    if pid == "C02":
        return plan_c02(pid, tier, seed, ncpu)
    if pid == "C09":
        return plan_c09(pid, tier, seed, ncpu)
    if pid in SEQ:
        return plan_seq(pid, tier, seed, ncpu)
    if pid == "C15":
        return plan_c15(pid, tier, seed, ncpu)
    return None
