"""Per-property check plans: which engines run, with which workloads, and the coverage floors.

A plan is a dict:
  variants     build variants needed (see VARIANTS in ../check)
  jobs         function(bindirs, workdir, known_sigs) -> list of job dicts
  floors       {observed counter: minimum} below which the run is inconclusive
  rule         how cases are generated and what makes one non-trivial / distinct
  assumptions  what the check trusts
"""
import os

COMMON_ASSUMPTIONS = [
    "verdicts hold for the executions produced by this run only (sampling, not exhaustion)",
    "hooks (--cfg mini_moka_verif) are add-only observers: mock clock, snapshots, switch points",
    "the harness' ground-truth log (a map with timestamps) is the specification of lookups",
    "deterministic test hashers (seeded mixer, identity, 2-bucket colliding) stand in for RandomState",
]


def seq_jobs(bindir, workdir, known, prop, profile, total, ops, seed, nshards, extra=None, prefix="seq", mode=None):
    jobs = []
    per = max(1, total // nshards)
    for s in range(nshards):
        out = os.path.join(workdir, "%s-%s-%d.json" % (prefix, profile, s))
        argv = [os.path.join(bindir, "seqmon"), "--prop", prop, "--profile", profile,
                "--seed", str(seed * 100003 + s * 7919 + hash_str(profile + prefix) % 1000),
                "--histories", str(per), "--ops", str(ops), "--out", out,
                "--known", ",".join(known)]
        if mode:
            argv += ["--mode", mode]
        if extra:
            argv += extra
        jobs.append(dict(name="%s-%s-%d" % (prefix, profile, s), argv=argv, out=out, kind="report"))
    return jobs


def hash_str(s):
    h = 0
    for c in s:
        h = (h * 131 + ord(c)) % 1000003
    return h


def scale(tier, quick, thorough):
    return thorough if tier == "thorough" else quick


SEQ = {
    # pid: (profiles [(name, share)], ops, quick total, thorough total, floors(quick), rule)
    "C01": ([("general", 6), ("invalidate", 2), ("capacity", 2)], 50, 320000, 8000000,
            {"lookups_with_queued_writes": 1000, "lookups_get_hit": 5000, "lookups_iter_item": 2000, "updates": 2000,
             "histories_sync": 1000, "histories_unsync": 1000},
            "seeded random histories over both cache kinds and the configuration lattice (capacity none/0..16, weigher with weights 0..>capacity, "
            "ttl, tti, hashers incl. colliding, sync() placement every-op or sparse); every get/contains_key/iter item is judged against the "
            "ground-truth log. Non-trivial: the history looked up a key that had been updated before, or looked up while writes of the "
            "concurrent cache were still queued; distinct by fingerprint of (config, op sequence)."),
    "C03": ([("loss", 6), ("general", 2), ("invalidate", 2)], 50, 320000, 8000000,
            {"fitting_inserts_into_previously_full_cache": 1000, "fitting_inserts": 5000, "lookups_get_miss": 5000},
            "histories biased to fill -> expire/invalidate -> refill and to ops left queued across invalidate_all/update; every live key "
            "that is held but invisible, or lost without capacity pressure, and (exact mode) every resident set that differs from the "
            "one-step reference model fed with the implementation's own pre-state is a violation. Non-trivial: a fitting insert into a "
            "cache that had been full before; distinct by fingerprint."),
    "C04": ([("capacity", 7), ("lru", 3)], 50, 320000, 8000000,
            {"quiescent_points_with_full_cache": 1000, "oversized_inserts": 500, "growth_evictions": 200},
            "bounded caches with weigher (weights 0, 1, 2, 3, cap/2, cap, cap+1, 2cap+1), growing/shrinking updates, expiry and invalidation; at every "
            "quiescent point the weights physically held (hook snapshot) must be <= max_capacity except the excess of a just-grown "
            "entry on the single-threaded cache. Non-trivial: a quiescent point with the cache full or a growth eviction; distinct by fingerprint."),
    "C05": ([("ttl", 10)], 40, 320000, 8000000,
            {"lookups_exactly_at_ttl_deadline": 1000, "lookups_1ns_before_ttl_deadline_visible": 300, "lookups_1ns_after_ttl_deadline": 100},
            "ttl in {0,1,2,10,1e3,1e6,5e8,1e9,3e9,1e15 ns} (alone and with tti); clock advances land on deadline-1ns / deadline / deadline+1ns of the "
            "ground-truth deadlines; every lookup at a reading >= last write + ttl that sees the entry is a violation. Non-trivial: a lookup "
            "exactly at a ttl deadline; distinct by fingerprint."),
    "C06": ([("tti", 10)], 40, 320000, 8000000,
            {"lookups_exactly_at_tti_deadline": 1000, "lookups_1ns_before_tti_deadline_visible": 300, "lookups_1ns_after_tti_deadline": 100},
            "as C05 for time_to_idle: the deadline is (latest of insert, update, successful get) + tti; contains_key and iter never count as access. "
            "Non-trivial: a lookup exactly at an idle deadline; distinct by fingerprint."),
    "C07": ([("invalidate", 8), ("general", 2)], 50, 320000, 8000000,
            {"reinsertions_after_invalidation": 1000, "invalidate_all_with_reads_queued": 100, "invalidate_calls": 2000, "invalidate_all_calls": 1000,
             "invalidate_entries_if_calls": 500},
            "the three invalidation forms anywhere, incl. while inserts/reads of the same keys are queued, re-insertion right after, probes afterwards; "
            "targets must be invisible for good, everything else must stay retrievable (same must-live rule as C03). Non-trivial: a key was "
            "re-inserted after an invalidation; distinct by fingerprint."),
    "C10": ([("counters", 7), ("capacity", 3)], 50, 320000, 8000000,
            {"counter_checks_after_invalidate": 1000, "counter_checks_after_invalidate_all": 500, "counter_checks_after_invalidate_entries_if": 300,
             "counter_checks_after_entries_left": 2000, "growth_evictions": 100, "admission_decisions_reject": 500},
            "at every quiescent point entry_count()/weighted_size() are compared with the entries physically held (hook snapshot); after maintenance "
            "no invalidated entry may still be held. Non-trivial: a quiescent point right after entries left the cache; distinct by fingerprint."),
    "C12": ([("lru", 10)], 50, 320000, 8000000,
            {"admissions_with_2_victims": 100, "growth_evictions_multi_victim": 100, "evictions_with_zero_weight_victim": 50, "recency_order_checks": 10000},
            "exact mode only (single-threaded cache; concurrent cache with sync() after every op), capacities 1..16, unit and variable weights: the set "
            "removed by each call is compared with the shortest-LRU-prefix prediction computed from the implementation's pre-state, and the "
            "probation order with the ground-truth recency order. Sparse sync() placement on the concurrent cache: each batch of operations queued since the last quiescent "
            "point and applied by one explicit sync() (no maintenance nested in between, checked on the queue lengths and the deque node identities) is judged by a batch "
            "model: recorded reads first, then the writes in queue order, stale ops skipped, victims by accounted weight. Non-trivial: an admission with victims or a growth "
            "eviction; distinct by fingerprint."),
    "C13": ([("admission", 10)], 50, 320000, 8000000,
            {"admission_decisions_admit": 1000, "admission_decisions_reject": 1000, "admission_decisions_with_equal_estimates": 500,
             "admissions_with_2_victims": 100},
            "exact mode only: for every insert of a new key that does not fit, admitted/rejected and the victims are predicted from the "
            "implementation's own popularity estimates read just before the call; un-synced batches on the concurrent cache are judged by the batch model (see C12), "
            "with the estimates taken from the table right before the sync() plus the batch's own recorded reads. Non-trivial: a history with an admission decision; distinct by fingerprint."),
    "C16": ([("iter", 10)], 50, 320000, 8000000,
            {"iterations": 5000, "iter_items": 5000},
            "sequential clause: every iteration is compared with the ground truth as a multiset (no duplicates, nothing dead, every must-live key). "
            "Non-trivial: an iteration that yielded >= 2 entries; distinct by fingerprint."),
}


def plan_seq(pid, tier, seed, ncpu):
    profiles, ops, q, t, floors, rule = SEQ[pid]
    total = scale(tier, q, t)
    mult = total / float(q)
    shares = sum(s for _, s in profiles)

    extra_floors = {}
    extra_rule = ""
    fault_rule = ""
    m10 = 1 if tier == "quick" else 10

    def jobs(bindirs, workdir, known):
        js = []
        for (p, s) in profiles:
            n = max(1, (ncpu * s) // shares)
            js += seq_jobs(bindirs["dbg"], workdir, known, pid, p, total * s // shares, ops, seed, n)
        # long histories (200-400 ops): reach the 64-op flush points of the read / write logs without sync()
        js += seq_jobs(bindirs["dbg"], workdir, known, pid, profiles[0][0], max(200, total // 40), 400, seed, 2, prefix="long")
        if pid in ("C01", "C05", "C06", "C07", "C03", "C10", "C16", "C04", "C12", "C13"):
            # injected faults: the caller's own callbacks (V::clone, weigher, predicate) panic at a chosen call; a call that
            # panicked after changing anything is of unknown outcome (both possibilities are kept), everything else is judged as usual
            js += seq_jobs(bindirs["dbg"], workdir, known, pid, "fault", scale(tier, 40000, 1000000), 50, seed, 2, prefix="fault")
        if pid in ("C12", "C13", "C03", "C04", "C10"):
            # un-synced batches on the concurrent cache, judged by the batch model (reads first, then writes in queue order)
            js += seq_jobs(bindirs["dbg"], workdir, known, pid, "batch", scale(tier, 80000, 2000000), 60, seed, 4, prefix="batch")
        if pid == "C13":
            # more expired entries than one purge batch: a get that finds an expired entry still held is a recorded lookup too
            # (the popularity a later admission is decided on); judged by the table comparison around every call
            js += seq_jobs(bindirs["dbg"], workdir, known, pid, "bulk", scale(tier, 180, 4500), 1300, seed, 3, prefix="bulk")
        if pid == "C04":
            # size-aware caches with hundreds of entries: one update that needs more than one eviction batch
            js += seq_jobs(bindirs["dbg"], workdir, known, pid, "bulk", scale(tier, 240, 6000), 1300, seed, 3, prefix="bulk")
        if pid in ("C01", "C03", "C05", "C06", "C07"):
            # far future: scripted scenarios centuries after the cache was built (beyond 2^64 ns), both caches
            out = os.path.join(workdir, "farfuture.json")
            js.append(dict(name="farfuture", argv=[os.path.join(bindirs["dbg"], "cfgmon"), "--far-future", "1", "--prop", pid, "--out", out], out=out, kind="report"))
        if pid in ("C07", "C01"):
            # invalidate_all over more admitted entries than one maintenance run purges
            js += seq_jobs(bindirs["dbg"], workdir, known, pid, "bulk", scale(tier, 180, 4500), 1300, seed, 3, prefix="bulk")
        if pid in ("C05", "C06", "C16"):
            # more expired entries pending than one maintenance batch (100 / 500) purges
            js += seq_jobs(bindirs["dbg"], workdir, known, pid, "bulk", scale(tier, 240, 6000), 1300, seed, 4, prefix="bulk")
        # concurrent clauses
        if pid == "C10":
            js += con_jobs(bindirs["dbg0"], workdir, known, pid, "chase", seed + 9, 2, programs=scale(tier, 240, 6000), schedules=3, variant="dbg0")
        if pid == "C10":
            # a maintainer parked inside a run while others queue more than a flush point of writes; the explicit sync() that follows must leave nothing behind
            js += con_jobs(bindirs["dbg"], workdir, known, pid, "park", seed, 1, programs=scale(tier, 120, 2400), schedules=4)
        if pid in ("C03", "C10"):
            # the release profile has no debug_assert: counter drift shows as drift, not as a panic
            js += con_jobs(bindirs["rel"], workdir, known, pid, "baton", seed + 2, 2, programs=scale(tier, 800, 40000), schedules=scale(tier, 10, 20), variant="rel")
            js += con_jobs(bindirs["rel"], workdir, known, pid, "stress", seed + 2, 2, programs=scale(tier, 160, 8000), schedules=scale(tier, 5, 10), variant="rel")
        if pid == "C01":
            # the concurrent reading of "only the latest live value": serialized schedules and full-speed chase / storm programs
            js += con_jobs(bindirs["dbg"], workdir, known, pid, "chase", seed, 2, programs=scale(tier, 240, 6000), schedules=3)
            js += con_jobs(bindirs["dbg"], workdir, known, pid, "baton", seed, 2, programs=scale(tier, 800, 20000), schedules=10)
        if pid == "C07":
            js += con_jobs(bindirs["dbg"], workdir, known, pid, "chase", seed, 2, programs=scale(tier, 200, 6000), schedules=3)
        if pid in ("C05", "C06"):
            # expiry chase: writers re-insert and move the clock by about one period, readers read at full speed; the only
            # reason for a value to disappear is its deadline (concurrent ttl rule; idle-deadline fixpoint rule)
            js += con_jobs(bindirs["dbg"], workdir, known, pid, "chase", seed, 3, programs=scale(tier, 300, 9000), schedules=3, extra=["--expiry-every", "1"], tag="-expiry")
            js += con_jobs(bindirs["dbg0"], workdir, known, pid, "chase", seed + 9, 1, programs=scale(tier, 60, 2000), schedules=3, variant="dbg0", extra=["--expiry-every", "1"], tag="-expiry")
        if pid in ("C03", "C07", "C10"):
            js += con_jobs(bindirs["dbg"], workdir, known, pid, "baton", seed, 4, programs=scale(tier, 1200, 40000), schedules=scale(tier, 10, 20))
            js += con_jobs(bindirs["dbg"], workdir, known, pid, "stress", seed, 2, programs=scale(tier, 160, 8000), schedules=scale(tier, 5, 10))
        if pid == "C04":
            js += con_jobs(bindirs["dbg"], workdir, known, pid, "burstn", seed, 3, rounds=scale(tier, 18, 300))
            js += con_jobs(bindirs["dbg"], workdir, known, pid, "burst1", seed, 1, rounds=scale(tier, 20, 300))
            js += con_jobs(bindirs["dbg"], workdir, known, pid, "baton", seed, 2, programs=scale(tier, 800, 20000), schedules=10)
            # release profile (no debug_assert): counters that drift low let the cache grow past its capacity
            js += con_jobs(bindirs["rel"], workdir, known, pid, "baton", seed + 5, 2, programs=scale(tier, 1200, 30000), schedules=10, variant="rel")
            js += con_jobs(bindirs["rel"], workdir, known, pid, "chase", seed + 5, 2, programs=scale(tier, 200, 6000), schedules=3, variant="rel")
            js += con_jobs(bindirs["dbg"], workdir, known, pid, "chase", seed, 1, programs=scale(tier, 100, 3000), schedules=3)
            # unoptimized build: windows inside one function (two loads of a weight) are far wider
            js += con_jobs(bindirs["dbg0"], workdir, known, pid, "chase", seed + 9, 3, programs=scale(tier, 360, 6000), schedules=3, variant="dbg0")
            if tier == "thorough":
                js += con_jobs(bindirs["rel"], workdir, known, pid, "burstn", seed + 5, 4, rounds=200, variant="rel")
        if pid == "C16":
            # chase / storm programs with iterations among the reads: every yielded pair is judged against the call/return history like a get
            js += con_jobs(bindirs["dbg"], workdir, known, pid, "chase", seed, 2, programs=scale(tier, 200, 6000), schedules=3)
            js += con_jobs(bindirs["dbg"], workdir, known, pid, "iter", seed, 4, rounds=scale(tier, 40, 1000))
            js += con_jobs(bindirs["dbg"], workdir, known, pid, "baton", seed, 3, programs=scale(tier, 1200, 30000), schedules=10)
            js += con_jobs(bindirs["dbg"], workdir, known, pid, "stress", seed, 1, programs=scale(tier, 150, 4000), schedules=5)
        return js

    if pid in ("C03", "C07", "C10"):
        extra_floors = {"quiescence_checks": 1000 * m10}
        if pid == "C10":
            extra_floors["explicit_syncs_judged"] = 300 * m10
        if pid == "C03":
            extra_floors["refills_performed"] = 100 * m10
        extra_rule = (" Concurrent clause: small random programs under the serialized scheduler and free-running with injected delays; after join + sync() "
                      "the structural walker, the counters, the live-object registry and (C03) a refill probe run: every key is invalidated, then max_capacity "
                      "fresh unit-weight keys are inserted one by one and must all be retained.")
    if pid == "C04":
        extra_floors = {"burst_overshoot_samples": 10 * m10}
        extra_rule = (" Overshoot clause: 1-8 threads x 3840 un-synced inserts of distinct unit-weight keys (clock within / beyond the periodical-sync interval, "
                      "with and without delays injected at the maintenance phase points); each thread samples the map size right after its own insert: never above "
                      "max_capacity + write queue (384) + 2 x threads (the sample is a sum over the map's shards; inserts that began while it was read are taken off it).")
    if pid == "C16":
        extra_floors = {"iterations_overlapping_a_write_of_a_yielded_key": 1000 * m10, "iteration_items_judged_against_history": 1000 * m10}
        extra_rule = (" Concurrent clause: 1-4 writers update a fixed key set (1..200 keys around shard multiples) with unique values while 1-3 threads iterate: every "
                      "key exactly once, value written by an insert that began before the iteration ended and not replaced by a write that completed before it began. "
                      "Random, contention and invalidate_all-storm programs carry iterations among their reads; every pair an iteration yields is judged against the call/return "
                      "history like a get spanning the iteration (no value replaced, invalidated or expired by an operation that completed before it began; no key twice).")
    if pid in ("C05", "C06"):
        extra_floors = {"gets_judged": 100000 * m10, "observations_judged_by_idle_deadline_rule": 10000 * m10}
        if pid == "C06":
            extra_floors["observations_kept_alive_only_by_another_get"] = 1000 * m10
        extra_rule = (" Concurrent clause (expiry chase): one or two writers keep re-inserting one or two keys and move the shared mock clock by about one expiry period "
                      "after each insert (keep-alive variant: rare writes, gets in steps of less than an idle period), 2-4 readers get / contains_key / iterate at full speed; "
                      "time_to_live: no get returns a value whose insert had returned a full period (by the clock) before the get began; time_to_idle: every observation must "
                      "be justified by an insert of the key, or by a justified get of it, that began before the observation returned and whose call ended less than a period "
                      "(by the clock) before the observation began (least fixpoint).")
    fl = {k: int(v * (1 if tier == "quick" else min(mult, 10))) for k, v in floors.items()}
    fl.update(extra_floors)
    if pid in ("C01", "C03", "C05", "C06", "C07"):
        fl["far_future_expectations_checked"] = 100
        fault_rule = (" Far-future clause: scripted scenarios on both caches with the clock 10 to 1600 years after the cache was built (beyond 2^64 ns): invalidate_all "
                      "585 years after the inserts, time_to_live of 600 and 1000 years probed a year / 1 ns before and at the deadline, time_to_idle of 600 years kept alive by gets.")
    if pid in ("C01", "C05", "C06", "C07", "C03", "C10", "C16", "C04", "C12", "C13"):
        fl["faults_fired"] = 1000 * m10
        fault_rule += (" Fault clause: in a share of the histories a callback of the caller (V::clone, the weigher, the predicate of invalidate_entries_if) panics at a chosen "
                       "call of the next operation; if nothing at all changed the operation did not happen, otherwise the ground truth follows the physical outcome (an insert whose value is in "
                       "the map happened, one whose value is not did not; an invalidation removed what is gone) and every monitor goes on from the implementation's own post-state.")
    variants = ["dbg"] + (["rel"] if pid in ("C03", "C04", "C10") else []) + (["dbg0"] if pid in ("C04", "C10", "C05", "C06") else [])
    return dict(variants=variants, jobs=jobs, floors=fl,
                rule=rule + extra_rule + fault_rule, assumptions=COMMON_ASSUMPTIONS + (CON_ASSUMPTIONS[len(COMMON_ASSUMPTIONS):] if extra_rule else []),
                watchdog_s=scale(tier, 900, 7200))


def plan_c15(pid, tier, seed, ncpu):
    total = scale(tier, 1200000, 12000000)

    def jobs(bindirs, workdir, known):
        js = seq_jobs(bindirs["dbg"], workdir, known, pid, "pure", total, 40, seed, ncpu, mode="pure", prefix="pure")
        # beside other threads: a deterministic single-writer program run alone and again beside 1-3 threads that only call
        # contains_key and iterate (holding a yielded entry reference, i.e. a shard read lock, for up to 300 us)
        js += con_jobs(bindirs["dbg"], workdir, known, pid, "observers", seed, 4, programs=scale(tier, 2400, 80000), schedules=1)
        return js

    fl = {"pairs_with_extra_call_on_lru_entry": 1000, "pairs_with_extra_call_on_candidate_before_insert": 1000,
          "pairs_with_extra_call_within_1_tick_of_idle_deadline": 100, "pairs_with_extra_call_while_excess_or_dead_entry_pending": 1000,
          "pairs_sync": 1000, "pairs_unsync": 1000, "observed_programs": 1000, "entry_references_held_beside_the_writer": 10000}
    return dict(variants=["dbg"], jobs=jobs, floors=fl,
                rule="metamorphic pairs: a base history h (tti and tight capacities) and h' = h plus extra contains_key/iter calls at random positions, "
                     "biased to the LRU entry, to entries within one tick of their idle deadline, to candidate keys right before their insert and to states with "
                     "pending work (a size excess left by a grown update, or an entry past its deadline that is still held; scripted: read the entry whose "
                     "time-to-live ends first, grow another one, advance to that deadline, then one operation that has to purge and evict); after "
                     "every base op both runs must agree on the op result, the popularity table (bit-identical), live entries with timestamps and the "
                     "recency order (concurrent cache: the whole physical snapshot). Non-trivial: a pair in which an extra call hit one of the "
                     "targets; distinct by fingerprint of (config, base ops, number of extras). Concurrent clause: a seeded single-writer program on the concurrent cache "
                     "(tight capacity, un-synced operations, clock advances) is run alone and again beside 1-3 observer threads that only call contains_key and iterate, holding a "
                     "yielded entry reference for up to 300 us: the writer's results, the counters, the popularity table and the physical state after the program must be identical.",
                assumptions=COMMON_ASSUMPTIONS + ["iter results are compared only when neither run has a size eviction pending (C04 allows that transient)"],
                watchdog_s=scale(tier, 600, 3600))


def con_jobs(bindir, workdir, known, prop, mode, seed, nshards, programs=0, schedules=0, rounds=0, variant="dbg", watchdog_s=None, extra=None, tag=""):
    jobs = []
    for s in range(nshards):
        out = os.path.join(workdir, "con-%s-%s%s-%d.json" % (variant, mode, tag, s))
        argv = [os.path.join(bindir, "conmon"), "--prop", prop, "--mode", mode,
                "--seed", str(seed * 100003 + s * 104729 + hash_str(mode) % 1000),
                "--out", out, "--known", ",".join(known)]
        if programs:
            argv += ["--programs", str(max(1, programs // nshards)), "--schedules", str(schedules)]
        if rounds:
            argv += ["--rounds", str(max(1, rounds // nshards))]
        if extra:
            argv += extra
        if "--watchdog-secs" not in argv:
            # last resort only (deadlock / livelock are decided on thread states and scheduler steps): generous, so that a
            # loaded machine does not turn a slow run into an inconclusive shard
            argv += ["--watchdog-secs", "120"]
        j = dict(name="con-%s-%s%s-%d" % (variant, mode, tag, s), argv=argv, out=out, kind="report")
        if watchdog_s:
            j["watchdog_s"] = watchdog_s
        jobs.append(j)
    return jobs


CON_ASSUMPTIONS = COMMON_ASSUMPTIONS + [
    "schedules are sampled at the granularity of the instrumented switch points (serialized random scheduler: uniform, sticky, PCT-like with 3 change points, "
    "maintainer-starving, maintainer-parking) and by free-running threads with injected delays; they are not exhausted, and interleavings inside "
    "DashMap / crossbeam-channel / triomphe are below that granularity",
    "the per-key history checker applies necessary conditions of linearizability only (unique values make every read identify its write), so it cannot alarm on a correct cache",
    "wall-clock watchdogs end a run as inconclusive; deadlock and livelock are decided on the scheduler's logical state (no runnable thread / step budget)",
]


def plan_c02(pid, tier, seed, ncpu):
    progs = scale(tier, 4800, 160000)
    stress = scale(tier, 480, 12000)

    def jobs(bindirs, workdir, known):
        js = con_jobs(bindirs["dbg"], workdir, known, pid, "baton", seed, max(1, ncpu * 3 // 4), programs=progs, schedules=scale(tier, 20, 50))
        js += con_jobs(bindirs["dbg"], workdir, known, pid, "stress", seed, max(1, ncpu // 4), programs=stress, schedules=scale(tier, 5, 10))
        # full-speed chase (no injected delays): windows inside get/insert that no switch point may expose
        js += con_jobs(bindirs["dbg"], workdir, known, pid, "chase", seed, 2, programs=scale(tier, 300, 8000), schedules=3)
        # a one-thread history is an interleaving too: un-synced reads/writes, idle deadlines, invalidations
        for prof in ("invalidate", "tti", "general", "fault"):
            js += seq_jobs(bindirs["dbg"], workdir, known, pid, prof, scale(tier, 40000, 1000000), 50, seed, 2, prefix="c02seq")
        return js

    m = 1 if tier == "quick" else 10
    return dict(variants=["dbg"], jobs=jobs,
                floors={"overlapping_read_write_pairs": 1000 * m, "runs_with_maintenance_nested_in_an_operation": 100 * m, "distinct_interleavings": 1000 * m,
                        "gets_judged": 5000 * m, "quiescence_checks": 1000 * m},
                rule="random small programs (2-4 threads x 1-6 ops over insert/get/contains_key/invalidate/invalidate_all(+clock tick)/sync on 1-3 keys, capacity 1..4/none, "
                     "ttl/tti/weigher on or off), each run under several seeded schedules of the serialized scheduler and free-running with injected delays (plus larger "
                     "programs: up to 16 threads x 400 ops); every get is checked against the recorded call/return history: no phantom or future value, no value superseded by "
                     "an insert/invalidate/effective invalidate_all that completed before the get began, per-reader monotonicity per writer, final state = nothing or a "
                     "maximal write. Non-trivial: a program with a get overlapping a write of its key or with maintenance nested in an operation; distinct by program "
                     "fingerprint (distinct interleavings, by trace hash, are reported separately).",
                assumptions=CON_ASSUMPTIONS, watchdog_s=scale(tier, 900, 7200))


def plan_c09(pid, tier, seed, ncpu):
    def jobs(bindirs, workdir, known):
        js = con_jobs(bindirs["dbg"], workdir, known, pid, "baton", seed, max(1, ncpu // 4), programs=scale(tier, 1600, 40000), schedules=scale(tier, 20, 40))
        js += con_jobs(bindirs["dbg"], workdir, known, pid, "park", seed, max(1, ncpu // 2), programs=scale(tier, 320, 8000), schedules=scale(tier, 5, 10))
        js += con_jobs(bindirs["dbg"], workdir, known, pid, "burst1", seed, 2, rounds=scale(tier, 40, 1000))
        js += con_jobs(bindirs["dbg"], workdir, known, pid, "burstn", seed, 2, rounds=scale(tier, 12, 200))
        js += con_jobs(bindirs["dbg"], workdir, known, pid, "stress", seed, 2, programs=scale(tier, 200, 6000), schedules=scale(tier, 5, 10))
        # a writer beside threads that only observe (iterate, hold entry references, read the counters): every call returns
        js += con_jobs(bindirs["dbg"], workdir, known, pid, "observers", seed, 2, programs=scale(tier, 800, 20000), schedules=1)
        # single-threaded multi-step histories under the progress guard (bounded maintenance loops)
        for prof in ("capacity", "general", "safety", "fault"):
            js += seq_jobs(bindirs["dbg"], workdir, known, pid, prof, scale(tier, 60000, 1500000), 50, seed, 2, prefix="c09seq")
        if tier == "thorough":
            js += con_jobs(bindirs["rel"], workdir, known, pid, "burst1", seed + 7, 2, rounds=400, variant="rel")
            js += con_jobs(bindirs["rel"], workdir, known, pid, "burstn", seed + 7, 2, rounds=100, variant="rel")
        return js

    m = 1 if tier == "quick" else 10
    return dict(variants=["dbg"] + (["rel"] if tier == "thorough" else []), jobs=jobs,
                floors={"backoff_events": 100 * m, "maintainer_parks": 100 * m, "explicit_syncs_judged": 1000 * m, "bursts_within_sync_interval": 4 * m, "bursts_beyond_sync_interval": 4 * m,
                        "maintenance_runs_during_bursts": 100 * m, "scheduler_steps": 100000 * m},
                rule="bounded progress instead of unbounded liveness: (1) small programs and contention programs (one thread may be parked inside maintenance at a phase point "
                     "while others issue > write-queue-size inserts) under the serialized scheduler: deadlock = unfinished threads but none runnable, livelock = step budget "
                     "(20000 + 4000 x ops) exhausted; (2) single-threaded bursts of 10 x 384 un-synced operations in both housekeeping regimes (clock within / beyond the "
                     "500 ms periodical-sync interval): more than 2 retries of one write op at the back-off hook, or no maintenance run at all, is a violation; (3) at every "
                     "quiescence the maintenance flag must be clear and the queues drained by one sync(), and an explicit sync() during a run may leave no more write operations queued than "
                     "inserts / invalidates of other threads overlapped it; (4) seeded single-threaded histories under a progress guard: a "
                     "maintenance batch loop that runs more than 50000 iterations within one call (the loops are bounded by batch 500 x 5 repeats), or a write op retried more "
                     "than 100 times with no other thread alive, never returns. Non-trivial: a contention program or a burst; distinct by program "
                     "fingerprint / (seed, round).",
                assumptions=CON_ASSUMPTIONS + ["unbounded 'every call returns' is restated as bounded progress; a finite run cannot decide liveness beyond its bounds"],
                watchdog_s=scale(tier, 900, 7200))



# ------------------------------------------------------------------------------------------------
# observers: ASan/LSan, Miri, TSan, valgrind
# ------------------------------------------------------------------------------------------------
import re

HARNESS_DIR = os.path.join(os.path.dirname(os.path.dirname(os.path.abspath(__file__))), "harness")
TARGET_DIR = os.path.join(os.path.dirname(os.path.dirname(os.path.abspath(__file__))), "target")
ROOT_DIR = os.path.dirname(os.path.dirname(os.path.abspath(__file__)))


def _read(path):
    try:
        with open(path, errors="replace") as f:
            return f.read()
    except OSError:
        return ""


def _first_repo_frame(text):
    for line in text.splitlines():
        m = re.search(r"(mini_moka::[A-Za-z0-9_:<>]+)", line)
        if m and "verif" not in m.group(1):
            loc = re.search(r"(src/[A-Za-z0-9_/]+\.rs):(\d+)", line)
            return m.group(1)[:80] + ("@" + loc.group(1) + ":" + loc.group(2) if loc else "")
    m = re.search(r"/repo/(src/[A-Za-z0-9_/]+\.rs):(\d+)", text)
    return (m.group(1) + ":" + m.group(2)) if m else "?"


def asan_crash(prop, cmdline):
    def h(rc, lp):
        t = _read(lp)
        m = re.search(r"ERROR: (AddressSanitizer|LeakSanitizer): ([A-Za-z0-9\- ]+)", t)
        if not m:
            return None
        kind = m.group(2).strip().split(" on ")[0].replace(" ", "-")
        body = t[m.start():]
        sig = "asan:%s:%s" % (kind, _first_repo_frame(body))
        return dict(props=[prop, "C08"] if prop != "C08" else ["C08"], sig=sig, detail=body[:1500].replace("\n", " | "),
                    history="# sanitizer report; reproduce with:\n# ASAN_OPTIONS=detect_leaks=1 %s\n%s\n" % (cmdline, body[:6000]))
    return h


def miri_crash(prop, cmdline):
    def h(rc, lp):
        t = _read(lp)
        m = re.search(r"error: (Undefined Behavior|unsupported operation|memory leaked|the evaluated program leaked memory|Data race)[^\n]*", t)
        if not m:
            m = re.search(r"error: [^\n]*(data race|leak)[^\n]*", t, re.I)
        if not m:
            return None
        body = t[m.start():]
        sig = "miri:%s:%s" % (re.sub(r"0x[0-9a-f]+|alloc\d+|<\d+>", "_", m.group(0))[:90].replace(" ", "-"), _first_repo_frame(body))
        return dict(props=[prop, "C08"] if prop != "C08" else ["C08"], sig=sig, detail=body[:1500].replace("\n", " | "),
                    history="# Miri report; reproduce with:\n# %s\n%s\n" % (cmdline, body[:6000]))
    return h


def with_prefix(jobs, prefix):
    for j in jobs:
        j["stat_prefix"] = prefix
    return jobs


def asan_wrap(jobs, prop):
    for j in jobs:
        j["env"] = dict(j.get("env", {}), ASAN_OPTIONS="detect_leaks=1:halt_on_error=1:abort_on_error=0:symbolize=1",
                        ASAN_SYMBOLIZER_PATH="/usr/bin/llvm-symbolizer-14")
        j["crash_handler"] = asan_crash(prop, " ".join(j["argv"]))
        j["name"] = "asan-" + j["name"]
        j["out"] = j["out"].replace(".json", ".asan.json")
        i = j["argv"].index("--out")
        j["argv"][i + 1] = j["out"]
    return with_prefix(jobs, "asan_")


def miri_jobs(workdir, known, prop, specs, seed, tree_borrows=False, watchdog_s=1500):
    """specs: list of (bin, [args]) ; each becomes one `cargo miri run`."""
    jobs = []
    flags = "-Zmiri-disable-isolation -Zmiri-permissive-provenance" + (" -Zmiri-tree-borrows" if tree_borrows else "")
    for n, (b, a) in enumerate(specs):
        out = os.path.join(workdir, "miri-%s-%d%s.json" % (b, n, "-tb" if tree_borrows else ""))
        argv = ["cargo", "+nightly", "miri", "run", "--offline", "--target-dir", os.path.join(TARGET_DIR, "miri"), "--bin", b, "--",
                "--prop", prop, "--out", out, "--known", ",".join(known)] + a
        j = dict(name="miri-%s-%d%s" % (b, n, "-tb" if tree_borrows else ""), argv=argv, out=out, kind="report", cwd=HARNESS_DIR,
                 env={"MIRIFLAGS": flags, "RUSTFLAGS": "--cfg mini_moka_verif"}, watchdog_s=watchdog_s)
        j["crash_handler"] = miri_crash(prop, "MIRIFLAGS='%s' RUSTFLAGS='--cfg mini_moka_verif' %s" % (flags, " ".join(argv)))
        jobs.append(j)
    return with_prefix(jobs, "miri_")


def deq_jobs(bindir, workdir, known, prop, seed, nshards, cases, ops=80):
    jobs = []
    for s in range(nshards):
        out = os.path.join(workdir, "deq-%d.json" % s)
        argv = [os.path.join(bindir, "dequemon"), "--prop", prop, "--seed", str(seed * 7 + s), "--cases", str(cases // nshards), "--ops", str(ops), "--out", out]
        jobs.append(dict(name="deq-%d" % s, argv=argv, out=out, kind="report"))
    return jobs


def sketch_jobs(bindir, workdir, known, prop, seed, nshards, budget, big=False, exhaustive_len=9):
    jobs = []
    for s in range(nshards):
        out = os.path.join(workdir, "sketch-%d.json" % s)
        argv = [os.path.join(bindir, "sketchmon"), "--prop", prop, "--seed", str(seed), "--shard", str(s), "--nshards", str(nshards),
                "--budget", str(budget), "--exhaustive-len", str(exhaustive_len), "--out", out] + (["--big", "1"] if big else [])
        jobs.append(dict(name="sketch-%d" % s, argv=argv, out=out, kind="report"))
    return jobs


def tsan_jobs(bindir, workdir, known, prop, seed, nshards, programs):
    jobs = con_jobs(bindir, workdir, known, prop, "stress", seed + 3, nshards, programs=programs, schedules=5, variant="tsan")
    jobs += con_jobs(bindir, workdir, known, prop, "chase", seed + 3, 2, programs=400, schedules=3, variant="tsan")
    jobs += con_jobs(bindir, workdir, known, prop, "iter", seed + 3, 1, rounds=40, variant="tsan")
    supp = os.path.join(ROOT_DIR, "tsan.supp")
    for j in jobs:
        j["env"] = {"TSAN_OPTIONS": "suppressions=%s halt_on_error=0 exitcode=0 second_deadlock_stack=1" % supp}
        j["kind"] = "custom"
        out = j["out"]

        def collect(rc, lp, out=out, cmd=" ".join(j["argv"])):
            t = _read(lp)
            res = {"violations": []}
            blocks = t.split("WARNING: ThreadSanitizer: ")
            ours = 0
            others = 0
            for b in blocks[1:]:
                if "mini_moka::" in b and "data race" in b[:40]:
                    ours += 1
                    if len(res["violations"]) < 2:
                        res["violations"].append(dict(props=[prop], sig="tsan:data-race:%s" % _first_repo_frame(b), detail=b[:1500].replace("\n", " | "),
                                                      history="# ThreadSanitizer report; reproduce with:\n# %s\n%s\n" % (cmd, b[:6000])))
                else:
                    others += 1
            if os.path.exists(out):
                import json
                with open(out) as f:
                    r = json.load(f)
                r["stats"]["tsan_reports_in_mini_moka"] = ours
                r["stats"]["tsan_reports_elsewhere_not_counted"] = others
                res["report"] = r
            else:
                res["problem"] = "tsan shard wrote no report (rc %s)" % rc
            return res
        j["collect"] = collect
    return with_prefix(jobs, "tsan_")


def valgrind_jobs(bindir, workdir, known, prop, seed):
    jobs = []
    specs = [("seqmon", ["--profile", "safety", "--histories", "1500", "--ops", "40", "--drop-percent", "20"]),
             ("dequemon", ["--cases", "2000", "--ops", "60"]),
             ("conmon", ["--mode", "stress", "--programs", "40", "--schedules", "3"])]
    for n, (b, a) in enumerate(specs):
        out = os.path.join(workdir, "vg-%s.json" % b)
        argv = ["valgrind", "--error-exitcode=9", "--leak-check=full", "--errors-for-leak-kinds=definite", "-q",
                os.path.join(bindir, b), "--prop", prop, "--seed", str(seed + 11), "--out", out, "--known", ",".join(known)] + a
        j = dict(name="vg-%s" % b, argv=argv, out=out, kind="custom", watchdog_s=3000)

        def collect(rc, lp, out=out, cmd=" ".join(argv)):
            t = _read(lp)
            res = {"violations": []}
            if rc == 9 or "Invalid read" in t or "Invalid write" in t or "definitely lost" in t:
                m = re.search(r"==\d+== (Invalid [a-z]+ of size \d+|Invalid free|[\d,]+ bytes in [\d,]+ blocks are definitely lost)", t)
                kind = m.group(1) if m else "error"
                kind = re.sub(r"[\d,]+ bytes in [\d,]+ blocks are ", "", kind)
                res["violations"].append(dict(props=[prop], sig="memcheck:%s:%s" % (kind.replace(" ", "-"), _first_repo_frame(t)), detail=t[:1500].replace("\n", " | "),
                                              history="# valgrind memcheck report; reproduce with:\n# %s\n%s\n" % (cmd, t[:6000])))
            if os.path.exists(out):
                import json
                with open(out) as f:
                    res["report"] = json.load(f)
            elif not res["violations"]:
                res["problem"] = "valgrind job wrote no report (rc %s)" % rc
            return res
        j["collect"] = collect
        jobs.append(j)
    return with_prefix(jobs, "memcheck_")


def plan_c14(pid, tier, seed, ncpu):
    def jobs(bindirs, workdir, known):
        js = sketch_jobs(bindirs["dbg"], workdir, known, pid, seed, max(1, ncpu // 2), scale(tier, 1200000, 40000000), big=(tier == "thorough"), exhaustive_len=scale(tier, 9, 11))
        js += seq_jobs(bindirs["dbg"], workdir, known, pid, "sketchapi", scale(tier, 160000, 4000000), 50, seed, max(1, ncpu // 2 - 2))
        js += seq_jobs(bindirs["dbg"], workdir, known, pid, "fault", scale(tier, 30000, 600000), 50, seed, 1, prefix="fault")
        # size-aware caches with hundreds of entries: the size estimate the table is derived from keeps changing
        js += seq_jobs(bindirs["dbg"], workdir, known, pid, "bulk", scale(tier, 240, 6000), 1300, seed, 4, prefix="bulk")
        return js

    m = 1 if tier == "quick" else 10
    return dict(variants=["dbg"], jobs=jobs,
                floors={"aging_steps_capacity_tiny": 100, "aging_steps_capacity_small": 100, "aging_steps_capacity_medium": 20 if tier == "quick" else 50, "saturated_counter_events": 1000 * m,
                        "sketch_comparisons": 10000 * m, "sketch_gets_recorded": 1000 * m, "collision_free_estimates_checked": 10000 * m,
                        "bounded_exhaustive_sequences": 10000},
                rule="the real FrequencySketch is driven through a facade against an exact reference (count per hash, saturating at 15, floor-halved by aging): capacities "
                     "{0,1,2,3,5,127,128,129,255,257,1000,65537 (+2^20 thorough)} x streams {uniform, Zipf, few hot, all-equal, sequential, slot-aware spreading adversary}; after "
                     "every increment: estimate in 0..15, >= reference, == reference without collisions, no other estimate lowered without aging, the table changed by exactly "
                     "four saturating counter increments, and an aging step floor-halves every counter of the table at once; bounded-exhaustive over all sequences of 3 hashes "
                     "x 9-13 steps at capacities 0..3. Cache-level clause: in seeded cache histories the popularity table is compared before/after every API call: only get "
                     "changes it, by exactly one recorded lookup. Non-trivial: a (capacity, stream, seed) case or a cache history in which a get was recorded into an enabled "
                     "table; distinct by case seed / history fingerprint.",
                assumptions=COMMON_ASSUMPTIONS + ["the facade's slots() (the implementation's own index function) is trusted to name the four counters of a hash"],
                watchdog_s=scale(tier, 900, 7200))


def plan_c17(pid, tier, seed, ncpu):
    def jobs(bindirs, workdir, known):
        js = []
        n = max(1, ncpu // 2)
        for s in range(n):
            out = os.path.join(workdir, "cfg-%d.json" % s)
            argv = [os.path.join(bindirs["dbg"], "cfgmon"), "--prop", pid, "--seed", str(seed * 31 + s), "--shard", str(s), "--pairs", str(scale(tier, 40000, 1000000) // n), "--out", out]
            js.append(dict(name="cfg-%d" % s, argv=argv, out=out, kind="report"))
        return js

    m = 1 if tier == "quick" else 10
    return dict(variants=["dbg"], jobs=jobs,
                floors={"builder_combinations": 12288, "boundary_durations_above_limit": 1000, "initial_capacity_differential_pairs": 10000 * m, "scaled_capacity_pairs": 2500 * m, "unbounded_retention_runs": 4,
                        "no_weigher_unit_weight_runs": 10, "new_vs_builder_runs": 4, "setter_call_orders_used": 120},
                rule="exhaustive over the builder lattice: both kinds x max_capacity {absent,0,1,2^32-1,2^32,u64::MAX} x initial_capacity {absent,0,1,1000} x weigher {absent,present} "
                     "x time_to_live, time_to_idle {absent,0,1ns,1000y-1ns,1000y,1000y+1ns,1000y+1s,Duration::MAX} x build / build_with_hasher, the five setters called in a different one of their 120 orders for each combination: policy() echoes the inputs, build panics "
                     "iff a duration exceeds 1000 years (message checked); unbounded caches retain 10^4 inserts of arbitrary weights; without a weigher exactly max_capacity never-read "
                     "entries are admitted and weighted_size == entry_count; new(n) vs builder().max_capacity(n).build(); and sampled differential histories (deterministic hasher, "
                     "profiles admission/lru/general/capacity) between a configuration and the same one with initial_capacity in {0,1,2,3,5,8,16,100,1000}, comparing every op result, "
                     "the physical entries, the recency order, the counters and the popularity table; and sampled scaled pairs: a cache of max_capacity c*f+r above u32::MAX (c even in 4..16, f about 2^30, r in {0,1}) whose weigher "
                     "reports multiples of f against a cache of max_capacity c with the multiples themselves, same history (insert / get / contains_key / invalidate / sync), comparing every lookup, "
                     "the held keys, entry_count and weighted_size / f. Non-trivial: a differential pair; distinct by pair seed. The lattice part is exhaustive.",
                assumptions=COMMON_ASSUMPTIONS + ["huge initial capacities are excluded (an allocation failure aborts the process and is not a property of the cache)"],
                watchdog_s=scale(tier, 600, 3600))


def plan_c08_c11(pid, tier, seed, ncpu):
    thorough = tier == "thorough"

    def jobs(bindirs, workdir, known):
        js = []
        d = bindirs["dbg"]
        js += seq_jobs(d, workdir, known, pid, "safety", scale(tier, 120000, 3000000), 50, seed, 6, extra=["--drop-percent", "25"])
        js += seq_jobs(d, workdir, known, pid, "capacity", scale(tier, 40000, 800000), 50, seed, 2, extra=["--drop-percent", "10"])
        # injected faults: panics in the caller's own callbacks must leave a cache that later calls can use without internal panics or memory errors
        js += seq_jobs(d, workdir, known, pid, "fault", scale(tier, 60000, 1500000), 50, seed, 2, extra=["--drop-percent", "10"], prefix="fault")
        js += con_jobs(d, workdir, known, pid, "baton", seed, 2, programs=scale(tier, 800, 20000), schedules=10)
        js += con_jobs(d, workdir, known, pid, "stress", seed, 2, programs=scale(tier, 160, 6000), schedules=5)
        js += con_jobs(d, workdir, known, pid, "park", seed, 1, programs=scale(tier, 120, 2400), schedules=4)
        js += deq_jobs(d, workdir, known, pid, seed, 1, scale(tier, 40000, 800000))
        if pid == "C08":
            js += sketch_jobs(d, workdir, known, pid, seed, 2, scale(tier, 2000000, 30000000), big=thorough)
            # every cache the builders accept (the whole lattice of boundary values) must survive a few ordinary calls
            out = os.path.join(workdir, "cfg-lattice.json")
            js.append(dict(name="cfg-lattice", argv=[os.path.join(d, "cfgmon"), "--prop", pid, "--seed", str(seed), "--shard", "0", "--pairs", "200", "--out", out], out=out, kind="report"))
        a = bindirs["asan"]
        aj = seq_jobs(a, workdir, known, pid, "safety", scale(tier, 16000, 600000), 50, seed + 1, scale(tier, 4, 8), extra=["--drop-percent", "25"], prefix="aseq")
        aj += seq_jobs(a, workdir, known, pid, "fault", scale(tier, 8000, 300000), 50, seed + 1, 2, extra=["--drop-percent", "10"], prefix="afault")
        aj += con_jobs(a, workdir, known, pid, "stress", seed + 1, 2, programs=scale(tier, 100, 6000), schedules=5, variant="asan")
        aj += con_jobs(a, workdir, known, pid, "baton", seed + 1, 1, programs=scale(tier, 200, 6000), schedules=5, variant="asan")
        aj += con_jobs(a, workdir, known, pid, "chase", seed + 1, 1, programs=scale(tier, 40, 1500), schedules=3, variant="asan")
        aj += con_jobs(a, workdir, known, pid, "iter", seed + 1, 1, rounds=scale(tier, 6, 100), variant="asan")
        aj += deq_jobs(a, workdir, known, pid, seed + 1, 1, scale(tier, 8000, 200000))
        js += asan_wrap(aj, pid)
        specs = [("dequemon", ["--seed", str(seed * 13 + i), "--cases", str(scale(tier, 20, 150)), "--ops", "40"]) for i in range(scale(tier, 2, 4))]
        specs += [("seqmon", ["--profile", "safety", "--seed", str(seed * 17 + i), "--histories", str(scale(tier, 5, 60)), "--ops", "30", "--light", "1", "--drop-percent", "30"]) for i in range(scale(tier, 4, 8))]
        specs += [("seqmon", ["--profile", "fault", "--seed", str(seed * 41 + i), "--histories", str(scale(tier, 5, 60)), "--ops", "30", "--light", "1"]) for i in range(scale(tier, 2, 4))]
        specs += [("conmon", ["--mode", "baton", "--seed", str(seed * 19 + i), "--programs", str(scale(tier, 2, 10)), "--schedules", "2", "--watchdog-secs", str(scale(tier, 240, 900))]) for i in range(scale(tier, 2, 4))]
        if thorough:
            specs += [("conmon", ["--mode", "stress", "--seed", str(seed * 23 + i), "--programs", "6", "--schedules", "2", "--watchdog-secs", "900",
                                  "--big-every", "1000000", "--chase-every", "1000000"]) for i in range(4)]
        js += miri_jobs(workdir, known, pid, specs, seed, watchdog_s=scale(tier, 600, 2400))
        if thorough:
            tb = [("dequemon", ["--seed", str(seed * 29 + i), "--cases", "100", "--ops", "40"]) for i in range(2)]
            tb += [("seqmon", ["--profile", "safety", "--seed", str(seed * 37 + i), "--histories", "40", "--ops", "30", "--light", "1"]) for i in range(2)]
            js += miri_jobs(workdir, known, pid, tb, seed, tree_borrows=True)
            js += tsan_jobs(bindirs["tsan"], workdir, known, pid, seed, 4, 800)
            js += valgrind_jobs(bindirs["rel"], workdir, known, pid, seed)
        return js

    m = 1 if tier == "quick" else 10
    floors = {
        "lookups_get_hit": 1000 * m, "updates": 1000 * m, "entries_left_invalidated": 1000 * m, "entries_left_ttl_expired": 1000 * m, "entries_left_tti_expired": 1000 * m,
        "entries_left_for_capacity": 1000 * m, "admission_decisions_admit": 300 * m, "caches_dropped_with_queued_ops": 100 * m, "deque_move_to_back": 1000 * m,
        "deque_unlink_and_drop": 1000 * m, "deque_cursor_steps_mid_iteration": 1000 * m, "quiescence_checks": 500 * m, "explicit_syncs_judged": 300 * m,
        "asan_lookups_get_hit": 1000, "asan_entries_left_invalidated": 1000, "asan_entries_left_ttl_expired": 300, "asan_entries_left_tti_expired": 300,
        "asan_entries_left_for_capacity": 300, "asan_caches_dropped_with_queued_ops": 100, "asan_deque_unlink_and_drop": 1000, "asan_quiescence_checks": 100,
        "miri_ops": 100, "miri_deque_unlink_and_drop": 10, "miri_deque_move_to_back": 10, "miri_quiescence_checks": 2,
        "faults_fired": 1000 * m, "asan_faults_fired": 300, "miri_faults_fired": 1,
    }
    if pid == "C08":
        floors["built_caches_exercised"] = 4000
    if thorough:
        floors.update({"tsan_gets_judged": 1000, "memcheck_ops": 10000})
    if pid == "C08":
        rule = ("three independent observers over the same workloads: (1) native debug build (overflow checks, debug_assert) with a panic hook (any panic located in mini_moka is a "
                "violation; harness callbacks never panic) and the structural walker (link invariants, every entry owns exactly its nodes, no duplicate key in a deque, no orphan "
                "node: the preconditions of memory unsafety); (2) the same binaries under AddressSanitizer + LeakSanitizer; (3) Miri (UB, use-after-free, data races, leaks) on "
                "down-scaled workloads, Stacked Borrows (thorough: also Tree Borrows), plus ThreadSanitizer on free-running stress and valgrind memcheck on the release build "
                "(thorough). Workloads: seeded sequential histories over all configurations with caches dropped mid-history with queued ops, concurrent programs (serialized "
                "scheduler, contention programs, free-running), random op sequences on the intrusive list through the facade against a VecDeque model, and the sketch streams; "
                "histories with injected faults (the caller's V::clone, weigher or predicate panics at a chosen call: the only panic allowed, and later calls must neither panic inside mini_moka nor touch freed memory). "
                "Non-trivial: a history / program / list case that exercised at least one unlink or move path; distinct by fingerprint / case seed.")
    else:
        rule = ("instrumented key and value types carry a unique object id; a registry counts constructions, clones and drops and flags a second drop. At every quiescent point the "
                "number of live key objects and of live value objects must equal the number of entries physically held (hook snapshot); after maintenance no invalidated entry may "
                "still be held, and an explicit sync() may leave no more write operations queued than inserts / invalidates of other threads overlapped it (a maintainer is parked inside "
                "a run while others queue more than a flush point of writes); after dropping the last handle (also mid-history with operations still queued, also after concurrent programs) nothing may be alive; "
                "LeakSanitizer / Miri report leaked list nodes at process exit. Same workloads as C08, incl. the intrusive-list driver with element drop counts. Non-trivial: "
                "a cache dropped with queued ops, or a history with removals; distinct by fingerprint / case seed.")
    return dict(variants=["dbg", "asan", "miri"] + (["tsan", "rel"] if thorough else []), jobs=jobs, floors=floors, rule=rule,
                assumptions=CON_ASSUMPTIONS + [
                    "a clean sanitizer run is not memory safety: ASan misses non-adjacent overflows and reuse after quarantine; Miri runs the tagged-pointer code under permissive provenance",
                    "ThreadSanitizer does not model fences: reports outside mini_moka (triomphe Arc drop) are suppressed and only counted",
                ],
                watchdog_s=scale(tier, 1500, 10000))


def plan_for(pid, tier, seed, ncpu):
    if pid == "C14":
        return plan_c14(pid, tier, seed, ncpu)
    if pid == "C17":
        return plan_c17(pid, tier, seed, ncpu)
    if pid in ("C08", "C11"):
        return plan_c08_c11(pid, tier, seed, ncpu)
    if pid == "C02":
        return plan_c02(pid, tier, seed, ncpu)
    if pid == "C09":
        return plan_c09(pid, tier, seed, ncpu)
    if pid in SEQ:
        return plan_seq(pid, tier, seed, ncpu)
    if pid == "C15":
        return plan_c15(pid, tier, seed, ncpu)
    return None
