//! Instrumented key / value types and deterministic hashers.
//!
//! Every key and value object handed to a cache carries a unique object id. A process-global
//! registry counts constructions, clones and drops and flags a second drop of an id. The registry
//! stores ids, never addresses, so it does not hide leaks from LSan / memcheck / Miri.

use std::collections::HashSet;
use std::hash::{BuildHasher, Hash, Hasher};
use std::sync::atomic::{AtomicBool, AtomicI64, AtomicU64, Ordering};
use std::sync::Mutex;

static NEXT_OBJ: AtomicU64 = AtomicU64::new(1);
static KEYS_CREATED: AtomicU64 = AtomicU64::new(0);
static KEYS_DROPPED: AtomicU64 = AtomicU64::new(0);
static VALS_CREATED: AtomicU64 = AtomicU64::new(0);
static VALS_CLONED: AtomicU64 = AtomicU64::new(0);
static VALS_DROPPED: AtomicU64 = AtomicU64::new(0);
static LIVE_KEYS: AtomicI64 = AtomicI64::new(0);
static LIVE_VALS: AtomicI64 = AtomicI64::new(0);
static DOUBLE_DROPS: AtomicU64 = AtomicU64::new(0);
static TRACK_SET: AtomicBool = AtomicBool::new(true);
static LIVE_SET: Mutex<Option<HashSet<u64>>> = Mutex::new(None);

fn live_insert(id: u64) {
    if TRACK_SET.load(Ordering::Relaxed) {
        let mut g = LIVE_SET.lock().unwrap_or_else(|e| e.into_inner());
        g.get_or_insert_with(HashSet::new).insert(id);
    }
}

fn live_remove(id: u64) {
    if TRACK_SET.load(Ordering::Relaxed) {
        let mut g = LIVE_SET.lock().unwrap_or_else(|e| e.into_inner());
        if !g.get_or_insert_with(HashSet::new).remove(&id) {
            DOUBLE_DROPS.fetch_add(1, Ordering::SeqCst);
        }
    }
}

#[derive(Clone, Copy, Debug, Default, PartialEq, Eq)]
pub struct ObjStats {
    pub keys_created: u64,
    pub keys_dropped: u64,
    pub vals_created: u64,
    pub vals_cloned: u64,
    pub vals_dropped: u64,
    pub live_keys: i64,
    pub live_vals: i64,
    pub double_drops: u64,
}

pub fn obj_stats() -> ObjStats {
    ObjStats {
        keys_created: KEYS_CREATED.load(Ordering::SeqCst),
        keys_dropped: KEYS_DROPPED.load(Ordering::SeqCst),
        vals_created: VALS_CREATED.load(Ordering::SeqCst),
        vals_cloned: VALS_CLONED.load(Ordering::SeqCst),
        vals_dropped: VALS_DROPPED.load(Ordering::SeqCst),
        live_keys: LIVE_KEYS.load(Ordering::SeqCst),
        live_vals: LIVE_VALS.load(Ordering::SeqCst),
        double_drops: DOUBLE_DROPS.load(Ordering::SeqCst),
    }
}

/// Resets the registry. Only call when no tracked object is alive.
pub fn obj_reset() {
    for c in [&KEYS_CREATED, &KEYS_DROPPED, &VALS_CREATED, &VALS_CLONED, &VALS_DROPPED, &DOUBLE_DROPS] {
        c.store(0, Ordering::SeqCst);
    }
    LIVE_KEYS.store(0, Ordering::SeqCst);
    LIVE_VALS.store(0, Ordering::SeqCst);
    let mut g = LIVE_SET.lock().unwrap_or_else(|e| e.into_inner());
    *g = Some(HashSet::new());
}

/// Turns the id set (double drop detection) off, e.g. for long stress runs.
pub fn obj_track_set(on: bool) {
    TRACK_SET.store(on, Ordering::SeqCst);
}

//
// Fault injection: a callback of the caller (V::clone, the weigher, the predicate of
// invalidate_entries_if) panics at a chosen call. Armed by the driver right before one operation
// and disarmed right after it, so the harness' own use of these types never trips it.
//

pub const FAULT_MSG: &str = "MMV_FAULT: injected panic in a callback of the caller";
pub const SITE_CLONE: u8 = 0;
pub const SITE_WEIGHER: u8 = 1;
pub const SITE_PRED: u8 = 2;
pub const SITE_EQ: u8 = 3;
pub const SITE_HASH: u8 = 4;

/// Microseconds that every `V::clone` spins before it returns (0 = off). The concurrent cache runs
/// the caller's `clone` while it holds a shard lock of the hash map (insert) or a reference into it
/// (get): a slow clone widens exactly the windows in which no switch point may be placed.
static CLONE_SPIN_US: AtomicU64 = AtomicU64::new(0);

pub fn set_clone_spin_us(us: u64) {
    CLONE_SPIN_US.store(us, Ordering::Relaxed);
}

thread_local! {
    static FAULT: std::cell::Cell<Option<(u8, u32)>> = const { std::cell::Cell::new(None) };
}

/// The `nth` call (0 = the next one) of the callback `site` on this thread panics.
pub fn arm_fault(site: u8, nth: u32) {
    FAULT.with(|f| f.set(Some((site, nth))));
}

/// Disarms; true when the fault was still armed (it did not fire).
pub fn disarm_fault() -> bool {
    FAULT.with(|f| f.take()).is_some()
}

#[inline]
pub fn fault_point(site: u8) {
    FAULT.with(|f| {
        if let Some((s, n)) = f.get() {
            if s == site {
                if n == 0 {
                    f.set(None);
                    panic!("{}", FAULT_MSG);
                }
                f.set(Some((s, n - 1)));
            }
        }
    });
}

pub fn site_name(site: u8) -> &'static str {
    match site {
        SITE_CLONE => "clone",
        SITE_WEIGHER => "weigher",
        SITE_EQ => "key-eq",
        SITE_HASH => "key-hash",
        _ => "predicate",
    }
}

/// Key: identity (hash / eq) is `id`; `obj` is the unique object id (0 = untracked probe key).
#[derive(Debug)]
pub struct TK {
    pub id: u32,
    obj: u64,
}

impl TK {
    /// A tracked key object, to be given to the cache.
    pub fn new(id: u32) -> TK {
        let obj = NEXT_OBJ.fetch_add(1, Ordering::Relaxed);
        KEYS_CREATED.fetch_add(1, Ordering::Relaxed);
        LIVE_KEYS.fetch_add(1, Ordering::SeqCst);
        live_insert(obj);
        TK { id, obj }
    }

    /// An untracked key used only for lookups by reference.
    pub fn probe(id: u32) -> TK {
        TK { id, obj: 0 }
    }
}

impl Drop for TK {
    fn drop(&mut self) {
        if self.obj != 0 {
            KEYS_DROPPED.fetch_add(1, Ordering::Relaxed);
            LIVE_KEYS.fetch_sub(1, Ordering::SeqCst);
            live_remove(self.obj);
        }
    }
}

impl PartialEq for TK {
    fn eq(&self, other: &Self) -> bool {
        fault_point(SITE_EQ);
        self.id == other.id
    }
}
impl Eq for TK {}
impl Hash for TK {
    fn hash<H: Hasher>(&self, state: &mut H) {
        fault_point(SITE_HASH);
        state.write_u32(self.id);
    }
}

/// Value: `vid` identifies the insert that wrote it, `weight` is what the weigher reports.
#[derive(Debug)]
pub struct TV {
    pub vid: u64,
    pub weight: u32,
    obj: u64,
}

impl TV {
    pub fn new(vid: u64, weight: u32) -> TV {
        let obj = NEXT_OBJ.fetch_add(1, Ordering::Relaxed);
        VALS_CREATED.fetch_add(1, Ordering::Relaxed);
        LIVE_VALS.fetch_add(1, Ordering::SeqCst);
        live_insert(obj);
        TV { vid, weight, obj }
    }
}

impl Clone for TV {
    fn clone(&self) -> Self {
        fault_point(SITE_CLONE);
        let spin = CLONE_SPIN_US.load(Ordering::Relaxed);
        if spin > 0 {
            let t0 = std::time::Instant::now();
            while (t0.elapsed().as_micros() as u64) < spin {
                std::hint::spin_loop();
            }
        }
        let obj = NEXT_OBJ.fetch_add(1, Ordering::Relaxed);
        VALS_CLONED.fetch_add(1, Ordering::Relaxed);
        LIVE_VALS.fetch_add(1, Ordering::SeqCst);
        live_insert(obj);
        TV {
            vid: self.vid,
            weight: self.weight,
            obj,
        }
    }
}

impl Drop for TV {
    fn drop(&mut self) {
        VALS_DROPPED.fetch_add(1, Ordering::Relaxed);
        LIVE_VALS.fetch_sub(1, Ordering::SeqCst);
        live_remove(self.obj);
    }
}

//
// Hashers: never RandomState, so that replays are deterministic.
//

#[derive(Clone, Copy, Debug, PartialEq, Eq, Hash)]
pub enum HashMode {
    /// A seeded 64-bit mixer.
    Mix(u64),
    /// hash(k) = k
    Identity,
    /// Only two distinct hashes: every key collides with half of the others.
    Collide2,
}

impl HashMode {
    pub fn name(&self) -> String {
        match self {
            HashMode::Mix(s) => format!("mix:{}", s),
            HashMode::Identity => "identity".into(),
            HashMode::Collide2 => "collide2".into(),
        }
    }
    pub fn parse(s: &str) -> Option<HashMode> {
        if s == "identity" {
            Some(HashMode::Identity)
        } else if s == "collide2" {
            Some(HashMode::Collide2)
        } else {
            s.strip_prefix("mix:").and_then(|x| x.parse().ok()).map(HashMode::Mix)
        }
    }
}

#[derive(Clone, Debug)]
pub struct TestBuildHasher(pub HashMode);

pub struct TestHasher {
    mode: HashMode,
    acc: u64,
}

impl BuildHasher for TestBuildHasher {
    type Hasher = TestHasher;
    fn build_hasher(&self) -> TestHasher {
        TestHasher { mode: self.0, acc: 0 }
    }
}

impl Hasher for TestHasher {
    fn finish(&self) -> u64 {
        match self.mode {
            HashMode::Identity => self.acc,
            HashMode::Collide2 => (self.acc & 1).wrapping_mul(0x9E37_79B9_7F4A_7C15),
            HashMode::Mix(seed) => {
                let mut z = self.acc ^ seed;
                z = z.wrapping_add(0x9E37_79B9_7F4A_7C15);
                z = (z ^ (z >> 30)).wrapping_mul(0xBF58_476D_1CE4_E5B9);
                z = (z ^ (z >> 27)).wrapping_mul(0x94D0_49BB_1331_11EB);
                z ^ (z >> 31)
            }
        }
    }
    fn write(&mut self, bytes: &[u8]) {
        for b in bytes {
            self.acc = (self.acc << 8) | (*b as u64);
        }
    }
    fn write_u32(&mut self, i: u32) {
        self.acc = (self.acc << 32) | i as u64;
    }
    fn write_u64(&mut self, i: u64) {
        self.acc = i;
    }
}
