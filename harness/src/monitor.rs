//! E1: the sequential transition monitor. Drives one history against the real cache and judges
//! every step with the ground-truth log, the one-step reference model (fed with the
//! implementation's own pre-state), the structural walker, the counters, the live-object
//! registry and the sketch comparison.

use crate::cut::{Cut, Snap};
use crate::hist::{Config, Density, History, Kind, Op};
use crate::truth::{DeadReason, Liveness, Truth};
use crate::types::{obj_reset, obj_stats};
use std::collections::{BTreeMap, BTreeSet, HashMap, HashSet};
use std::panic::{catch_unwind, AssertUnwindSafe};
use std::sync::Mutex;

pub const READ_LOG_SIZE: u64 = mini_moka::verif::constants::READ_LOG_SIZE as u64;

#[derive(Clone, Debug)]
pub struct Violation {
    /// properties this event refutes
    pub props: Vec<&'static str>,
    /// short cause signature (stable across runs; used for known-finding matching and shrinking)
    pub sig: String,
    pub detail: String,
    pub op_index: usize,
}

#[derive(Clone, Debug, Default)]
pub struct Stats {
    pub c: BTreeMap<&'static str, u64>,
    /// per property: did this history exercise the property non-trivially?
    pub nontrivial: BTreeSet<&'static str>,
}

impl Stats {
    pub fn inc(&mut self, k: &'static str) {
        *self.c.entry(k).or_insert(0) += 1;
    }
    pub fn add(&mut self, k: &'static str, n: u64) {
        *self.c.entry(k).or_insert(0) += n;
    }
    pub fn max(&mut self, k: &'static str, n: u64) {
        let e = self.c.entry(k).or_insert(0);
        if n > *e {
            *e = n;
        }
    }
    pub fn merge(&mut self, o: &Stats) {
        for (k, v) in &o.c {
            if k.starts_with("max_") {
                self.max(k, *v);
            } else {
                self.add(k, *v);
            }
        }
    }
}

#[derive(Clone, Debug, Default)]
pub struct RunResult {
    pub violations: Vec<Violation>,
    pub stats: Stats,
    pub ops_executed: usize,
}

// ---------------------------------------------------------------------------------------------
// panic capture
// ---------------------------------------------------------------------------------------------

static LAST_PANIC: Mutex<Option<(String, String)>> = Mutex::new(None);

pub fn install_panic_hook() {
    std::panic::set_hook(Box::new(|info| {
        let loc = info
            .location()
            .map(|l| format!("{}:{}", l.file(), l.line()))
            .unwrap_or_else(|| "?".into());
        let msg = if let Some(s) = info.payload().downcast_ref::<&str>() {
            s.to_string()
        } else if let Some(s) = info.payload().downcast_ref::<String>() {
            s.clone()
        } else {
            "<non-string panic>".into()
        };
        *LAST_PANIC.lock().unwrap_or_else(|e| e.into_inner()) = Some((loc, msg));
    }));
}

pub fn take_panic() -> Option<(String, String)> {
    LAST_PANIC.lock().unwrap_or_else(|e| e.into_inner()).take()
}

// ---------------------------------------------------------------------------------------------
// bounded progress in single-threaded histories (C09)
// ---------------------------------------------------------------------------------------------

thread_local! {
    static LOOP_ITERS: std::cell::Cell<u64> = const { std::cell::Cell::new(0) };
}

pub const LOOP_BOUND: u64 = 50_000;
pub const LOOP_BOUND_MSG: &str = "MMV_BOUND: a maintenance batch loop ran more than 50000 iterations within one call";
pub const BACKOFF_BOUND_MSG: &str = "MMV_BOUND: one write op was retried more than 100 times although no other thread exists";

/// Installs a switch hook that bounds the work one call may do in a single-threaded history.
/// The maintenance loops are bounded by their batch sizes (500) and the repeat count (4), and a
/// single thread can never find the write queue full, so crossing these bounds means the call
/// would never return. The hook escapes by panicking; the driver reports that as a C09 violation.
pub fn install_progress_guard() {
    mini_moka::verif::set_switch_hook(Some(std::sync::Arc::new(|p| match p {
        mini_moka::verif::Point::MaintenanceLoopIter => {
            let n = LOOP_ITERS.with(|c| {
                c.set(c.get() + 1);
                c.get()
            });
            if n > LOOP_BOUND {
                LOOP_ITERS.with(|c| c.set(0));
                panic!("{}", LOOP_BOUND_MSG);
            }
        }
        mini_moka::verif::Point::WriteBackoff(r) if r > 100 => panic!("{}", BACKOFF_BOUND_MSG),
        _ => {}
    })));
}

fn reset_progress_guard() {
    LOOP_ITERS.with(|c| c.set(0));
}

/// Strips the directory part that depends on where the repository lives.
pub fn norm_loc(loc: &str) -> String {
    match loc.find("src/") {
        Some(i) => loc[i..].to_string(),
        None => loc.to_string(),
    }
}

// ---------------------------------------------------------------------------------------------
// one-step reference model
// ---------------------------------------------------------------------------------------------

#[derive(Clone, Debug)]
struct Res {
    key: u32,
    w: u64,
    /// not dead per ground truth at the time of the op
    live: bool,
    freq: u32,
}

#[derive(Clone, Debug, Default, PartialEq, Eq)]
pub struct ModelOut {
    pub residents: Vec<u32>,
    /// Some(..) when the op was an insert of a key that did not fit
    pub admission: Option<(bool, Vec<u32>)>,
    pub growth_victims: Vec<u32>,
}

#[derive(Clone, Copy, Debug, PartialEq, Eq)]
enum Purge {
    AllFirst,
    NoneFirst,
    /// the dead residents that survive in the implementation's post-state are present
    /// during the decision, the others are purged first
    SurvivorsStay,
}

fn growth_evict(r: &mut Vec<Res>, cap: Option<u64>, victims: &mut Vec<u32>) {
    if let Some(cap) = cap {
        let total: u64 = r.iter().map(|x| x.w).sum();
        let excess = total.saturating_sub(cap);
        let mut evicted = 0u64;
        while evicted < excess && !r.is_empty() {
            let x = r.remove(0);
            evicted += x.w;
            victims.push(x.key);
        }
    }
}

#[allow(clippy::too_many_arguments)]
fn model_step(
    kind: Kind,
    pre: &[Res],
    cap: Option<u64>,
    op: &Op,
    eff_weight: u64,
    cand_freq: u32,
    purge: Purge,
    survivors: &HashSet<u32>,
    has_purge: bool,
    invalidate_if_targets: &HashSet<u32>,
    evict_first: bool,
) -> ModelOut {
    let mut r: Vec<Res> = pre.to_vec();
    let mut out = ModelOut::default();
    let runs_maintenance = match (kind, op) {
        (Kind::Unsync, Op::Get { .. } | Op::Insert { .. } | Op::Contains { .. } | Op::Invalidate { .. } | Op::InvalidateIf { .. }) => true,
        (Kind::Unsync, _) => false,
        // sync, exact mode: every op except a clock advance is followed by sync()
        (Kind::Sync, Op::Advance { .. }) => false,
        (Kind::Sync, _) => true,
    };
    let purge_dead = |r: &mut Vec<Res>, keep: &dyn Fn(&Res) -> bool| {
        r.retain(|x| x.live || keep(x));
    };
    if runs_maintenance && has_purge {
        match purge {
            Purge::AllFirst => purge_dead(&mut r, &|_| false),
            Purge::NoneFirst => {}
            Purge::SurvivorsStay => purge_dead(&mut r, &|x| survivors.contains(&x.key)),
        }
    }
    // unsync: the pending excess is evicted when the call starts. sync: a maintenance run nested
    // in the call may do the same before the call's own op is applied (only matters when an
    // excess is pending, i.e. after a batch-limited eviction).
    // (unsync contains_key purges expired entries but leaves the size eviction to the mutating calls)
    let unsync_evicts = kind == Kind::Unsync && !matches!(op, Op::Contains { .. });
    if runs_maintenance && (unsync_evicts || (kind == Kind::Sync && evict_first)) {
        growth_evict(&mut r, cap, &mut out.growth_victims);
    }
    match op {
        Op::Insert { k, .. } => {
            if let Some(i) = r.iter().position(|x| x.key == *k) {
                let mut x = r.remove(i);
                x.w = eff_weight;
                x.live = true;
                r.push(x);
            } else {
                let total: u64 = r.iter().map(|x| x.w).sum();
                let fits = cap.map(|c| total + eff_weight <= c).unwrap_or(true);
                if fits {
                    r.push(Res { key: *k, w: eff_weight, live: true, freq: cand_freq });
                } else if cap.map(|c| eff_weight > c).unwrap_or(false) {
                    out.admission = Some((false, vec![]));
                } else {
                    // shortest LRU prefix whose weight is at least the candidate's
                    let mut vw = 0u64;
                    let mut vf = 0u32;
                    let mut n = 0usize;
                    while vw < eff_weight && n < r.len() {
                        vw += r[n].w;
                        vf += r[n].freq;
                        n += 1;
                    }
                    if vw >= eff_weight && cand_freq > vf {
                        let victims: Vec<u32> = r.drain(0..n).map(|x| x.key).collect();
                        r.push(Res { key: *k, w: eff_weight, live: true, freq: cand_freq });
                        out.admission = Some((true, victims));
                    } else {
                        out.admission = Some((false, vec![]));
                    }
                }
            }
        }
        Op::Get { k } => {
            // a hit refreshes recency before the eviction of the same maintenance run (sync)
            if let Some(i) = r.iter().position(|x| x.key == *k && x.live) {
                let x = r.remove(i);
                r.push(x);
            }
        }
        Op::Invalidate { k } => r.retain(|x| x.key != *k),
        Op::InvalidateAll => {
            if kind == Kind::Unsync {
                r.clear();
            }
            // sync: the watermark only changes liveness, which the caller evaluates
        }
        Op::InvalidateIf { .. } => r.retain(|x| !invalidate_if_targets.contains(&x.key)),
        _ => {}
    }
    if runs_maintenance && kind == Kind::Sync {
        // dead residents are purged after the writes were applied (those that can be), then
        // the excess over the capacity is evicted
        growth_evict(&mut r, cap, &mut out.growth_victims);
    }
    out.residents = r.iter().map(|x| x.key).collect();
    out
}

// ---------------------------------------------------------------------------------------------
// the driver
// ---------------------------------------------------------------------------------------------

#[derive(Clone, Debug, Default)]
pub struct RunOpts {
    /// signatures that are listed as known findings: recorded, but the history continues and
    /// they are reported separately
    pub known: Vec<String>,
    /// stop at the first (non-known) violation
    pub stop_at_first: bool,
    /// drop the cache mid-history at this op index (C11: drop with queued ops)
    pub drop_at: Option<usize>,
    /// the property being judged ("all" or empty: any): a history only stops at a violation of
    /// this property, so that an alarm for another property cannot mask it
    pub prop: String,
    /// interpreter mode (Miri): most steps only execute the op and judge its result against the
    /// ground truth; the snapshot based monitors run at every 8th step
    pub light: bool,
}

pub struct Driver {
    pub cfg: Config,
    pub cut: Option<Cut>,
    pub truth: Truth,
    pub result: RunResult,
    pub opts: RunOpts,
    pub known_hits: Vec<Violation>,
    pub op_index: usize,
    pub dead: bool,
    /// hashes of gets recorded but possibly not yet applied to the sketch (sync)
    pending_reads: Vec<u64>,
    /// unsync: excess over the capacity that the last op may legitimately have left
    allowed_excess: u64,
    invalidations: u64,
    /// pending (un-synced) inserts of new keys since the last quiescent point: weight sum
    pending_new_weight: u64,
    ws_at_quiescence: u64,
    /// keys that were re-inserted after having been invalidated
    reinserted: HashSet<u32>,
    last_sync_quiescent: bool,
    /// dead entries (key, value) that survived a maintenance run which should have purged them,
    /// with the cause signature they were reported under
    stale_dead: HashMap<(u32, u64), String>,
    /// sparse mode: state at the last quiescent point and the ops queued since (see batch.rs)
    batch_base: Option<(Snap, mini_moka::verif::VerifSketch)>,
    batch_ops: Vec<crate::batch::BatchOp>,
    batch_expect: (usize, usize),
    batch_valid: bool,
    /// a fault armed by the last `arm_fault` op, for the next operation
    armed: Option<(u8, u32)>,
    /// an operation panicked in a callback of the caller *after* it had changed something: what the
    /// cache holds is no longer determined by the history, so only the monitors that need no such
    /// determination go on (lookups against the ground truth, panics, progress, object release at drop)
    pub faulted: bool,
}

fn key_of(op: &Op) -> Option<u32> {
    match op {
        Op::Insert { k, .. } | Op::Get { k } | Op::Contains { k } | Op::Invalidate { k } => Some(*k),
        _ => None,
    }
}

impl Driver {
    pub fn new(cfg: &Config, opts: RunOpts) -> Driver {
        obj_reset();
        let cut = Cut::new(cfg);
        Driver {
            cfg: cfg.clone(),
            cut: Some(cut),
            truth: Truth::new(cfg),
            result: RunResult::default(),
            opts,
            known_hits: Vec::new(),
            op_index: 0,
            dead: false,
            pending_reads: Vec::new(),
            allowed_excess: 0,
            invalidations: 0,
            pending_new_weight: 0,
            ws_at_quiescence: 0,
            reinserted: HashSet::new(),
            last_sync_quiescent: true,
            stale_dead: HashMap::new(),
            batch_base: None,
            batch_ops: Vec::new(),
            batch_expect: (0, 0),
            batch_valid: false,
            armed: None,
            faulted: false,
        }
    }

    pub fn now(&self) -> u64 {
        self.cut.as_ref().map(|c| c.now()).unwrap_or(0)
    }

    fn violate(&mut self, props: &[&'static str], sig: impl Into<String>, detail: impl Into<String>) {
        let v = Violation {
            props: props.to_vec(),
            sig: sig.into(),
            detail: detail.into(),
            op_index: self.op_index,
        };
        if self.opts.known.iter().any(|k| *k == v.sig) {
            self.known_hits.push(v);
        } else {
            let ours = self.opts.prop.is_empty() || self.opts.prop == "all" || v.props.iter().any(|p| *p == self.opts.prop);
            // broken links, dangling back-pointers and double drops end the history for everybody:
            // going on could crash the shard
            let fatal = v.sig.starts_with("structure:deque-links") || v.sig.starts_with("structure:dangling") || v.sig.starts_with("objects:double-drop");
            self.result.violations.push(v);
            if self.opts.stop_at_first && (ours || fatal) {
                self.dead = true;
            }
        }
    }

    fn eff_weight(&self, w: u32) -> u32 {
        if self.cfg.weigher {
            w
        } else {
            1
        }
    }

    pub fn exact(&self) -> bool {
        self.cfg.exact()
    }

    // ---- lookups -----------------------------------------------------------------------

    fn judge_visible(&mut self, how: &'static str, k: u32, vid: Option<u64>, now: u64) {
        let st = &mut self.result.stats;
        st.inc(match how {
            "get" => "lookups_get_hit",
            "contains_key" => "lookups_contains_true",
            _ => "lookups_iter_item",
        });
        // an insert of unknown outcome (injected fault): its value may be what is seen
        if self.truth.key(k).map(|t| t.alt.is_some()).unwrap_or(false) {
            let cur_matches = match vid {
                Some(v) => self.truth.cur(k).map(|l| l.vid == v).unwrap_or(false),
                None => matches!(self.truth.liveness(k, now), Liveness::Maybe | Liveness::Live),
            };
            if !cur_matches && self.truth.alt_may_be_visible(k, vid, now) {
                if vid.is_some() {
                    self.truth.promote_alt(k);
                }
                self.result.stats.inc("lookups_saw_value_of_faulted_insert");
                return;
            }
            if vid.is_some() && !cur_matches && self.truth.key(k).and_then(|t| t.alt).map(|a| Some(a.vid) == vid).unwrap_or(false) {
                // the faulted insert took effect and is seen past its own deadline
                self.truth.promote_alt(k);
            }
        }
        let live = self.truth.liveness(k, now);
        match live {
            Liveness::Dead(reason) => {
                let mut props: Vec<&'static str> = vec!["C01"];
                let sig = match reason {
                    DeadReason::NeverInserted => "visible:never-inserted",
                    DeadReason::InvalidatedByKey => {
                        props.push("C07");
                        "visible:after-invalidate"
                    }
                    DeadReason::InvalidatedByAll => {
                        props.push("C07");
                        "visible:after-invalidate_all"
                    }
                    DeadReason::InvalidatedByPred => {
                        props.push("C07");
                        "visible:after-invalidate_entries_if"
                    }
                };
                if how == "iter" {
                    props.push("C16");
                }
                if how == "get" && self.cfg.kind == Kind::Sync && reason != DeadReason::NeverInserted {
                    // a one-thread history is also an interleaving: the value was superseded by a
                    // completed invalidation before the get began
                    props.push("C02");
                }
                self.violate(&props, format!("{}:{}", sig, how), format!("{} observed key {} (value {:?}) at t={} although {:?}", how, k, vid, now, reason));
            }
            Liveness::ExpiredTtl => {
                let l = *self.truth.cur(k).unwrap();
                let mut props = vec!["C05"];
                if how == "iter" {
                    props.push("C16");
                }
                self.violate(
                    &props,
                    format!("visible:ttl-expired:{}", how),
                    format!("{} observed key {} at t={} >= last write {} + ttl {}", how, k, now, l.t_mod, self.truth.ttl.unwrap()),
                );
            }
            Liveness::ExpiredTti => {
                let l = *self.truth.cur(k).unwrap();
                let mut props = vec!["C06"];
                if how == "iter" {
                    props.push("C16");
                }
                self.violate(
                    &props,
                    format!("visible:tti-expired:{}", how),
                    format!("{} observed key {} at t={} >= last access {} + tti {}", how, k, now, l.a_hi, self.truth.tti.unwrap()),
                );
            }
            Liveness::Maybe | Liveness::Live => {
                if let Some(v) = vid {
                    let l = *self.truth.cur(k).unwrap();
                    if v != l.vid {
                        let written = self.truth.key(k).map(|t| t.written.contains(&v)).unwrap_or(false);
                        let mut props = vec!["C01"];
                        if how == "iter" {
                            props.push("C16");
                        }
                        if how == "get" && self.cfg.kind == Kind::Sync {
                            props.push("C02");
                        }
                        self.violate(
                            &props,
                            format!("{}:{}", if written { "stale-value" } else { "phantom-value" }, how),
                            format!("{} returned value {} for key {}, latest insert wrote {}", how, v, k, l.vid),
                        );
                    }
                }
            }
        }
        // deadline-proximity evidence (C05 / C06)
        if let Some(l) = self.truth.cur(k).copied() {
            if let Some(ttl) = self.truth.ttl {
                let d = l.t_mod.saturating_add(ttl);
                if now + 1 == d {
                    self.result.stats.inc("lookups_1ns_before_ttl_deadline_visible");
                }
            }
            if let Some(tti) = self.truth.tti {
                let d = l.a_hi.saturating_add(tti);
                if now + 1 == d {
                    self.result.stats.inc("lookups_1ns_before_tti_deadline_visible");
                }
            }
        }
    }

    /// A lookup of `k` saw nothing.
    fn judge_absent(&mut self, how: &'static str, k: u32, now: u64, pre: &Snap, mid: &Snap) {
        let live = self.truth.liveness(k, now);
        if let Some(l) = self.truth.cur(k).copied() {
            if let Some(ttl) = self.truth.ttl {
                let d = l.t_mod.saturating_add(ttl);
                if now == d {
                    self.result.stats.inc("lookups_exactly_at_ttl_deadline");
                    self.result.stats.nontrivial.insert("C05");
                } else if now == d + 1 {
                    self.result.stats.inc("lookups_1ns_after_ttl_deadline");
                }
            }
            if let Some(tti) = self.truth.tti {
                let d = l.a_hi.saturating_add(tti);
                if now == d {
                    self.result.stats.inc("lookups_exactly_at_tti_deadline");
                    self.result.stats.nontrivial.insert("C06");
                } else if now == d + 1 {
                    self.result.stats.inc("lookups_1ns_after_tti_deadline");
                }
            }
        }
        if live != Liveness::Live {
            return;
        }
        let l = *self.truth.cur(k).unwrap();
        let held = |s: &Snap| s.entry(k).map(|e| e.vid == l.vid).unwrap_or(false);
        let physically_there = held(pre) && held(mid);
        let never_binding = self.truth.capacity_never_binding();
        if physically_there || never_binding {
            let mut props = vec!["C03"];
            if self.invalidations > 0 {
                props.push("C07");
            }
            if how == "iter" {
                props.push("C16");
            }
            let why = if physically_there { "held-but-invisible" } else { "lost-without-capacity-pressure" };
            self.violate(
                &props,
                format!("absent:{}:{}", why, how),
                format!(
                    "{} did not see key {} (value {}, written at {}, last access >= {}) at t={}; {}",
                    how, k, l.vid, l.t_mod, l.a_lo, now, why
                ),
            );
        }
        if self.reinserted.contains(&k) {
            self.result.stats.inc("probes_of_reinserted_keys_absent");
        }
    }

    // ---- one step ------------------------------------------------------------------------

    pub fn step(&mut self, op: Op) {
        if self.dead || self.cut.is_none() {
            return;
        }
        let idx = self.op_index;
        if self.opts.drop_at == Some(idx) {
            self.drop_cache(true);
            return;
        }
        if let Op::Gets { k, n } = op {
            // a burst is n ordinary gets, each judged by every monitor
            self.result.stats.inc("read_bursts");
            for _ in 0..n {
                self.op_index = idx;
                self.step(Op::Get { k });
                if self.dead || self.cut.is_none() {
                    break;
                }
            }
            self.op_index = idx + 1;
            return;
        }
        if let Op::ArmFault { site, nth } = op {
            self.armed = Some((site, nth));
            self.result.stats.inc("faults_armed");
            self.op_index += 1;
            return;
        }
        if self.faulted || (self.opts.light && idx % 8 != 7) {
            self.step_light(op);
            return;
        }
        // A popularity table of more than 2^18 words (2 MiB) cannot be copied around every call.
        // The workloads never need one (<= 600 entries); weights and capacities that make the
        // cache size it that large end the history (allocation limits are out of scope, §10).
        if self.cut.as_ref().unwrap().sketch_table_len() > (1 << 18) {
            self.result.stats.inc("histories_abandoned_popularity_table_too_large");
            self.abandon();
            return;
        }
        let exact = self.exact();
        let is_sync = self.cfg.kind == Kind::Sync;
        let now = self.now();
        let pre = self.cut.as_ref().unwrap().snapshot();
        let pre_sketch = self.cut.as_ref().unwrap().sketch();
        let cand_freq = key_of(&op).map(|k| {
            let h = self.cut.as_ref().unwrap().hash(k);
            pre_sketch.frequency(h) as u32
        });
        let hash_of: HashMap<u32, u64> = {
            let cut = self.cut.as_ref().unwrap();
            let mut m = HashMap::new();
            for e in &pre.entries {
                m.insert(e.key, cut.hash(e.key));
            }
            if let Some(k) = key_of(&op) {
                m.insert(k, cut.hash(k));
            }
            m
        };

        // --- execute
        reset_progress_guard();
        let mut got: Option<Option<u64>> = None;
        let mut contained: Option<bool> = None;
        let mut iterated: Option<Vec<(u32, u64)>> = None;
        let mut iterated_split: Option<(Vec<(u32, u64)>, Vec<(u32, u64)>)> = None;
        let armed = self.armed.take();
        if let Some((site, nth)) = armed {
            crate::types::arm_fault(site, nth);
        }
        let res = {
            let cut = self.cut.as_mut().unwrap();
            catch_unwind(AssertUnwindSafe(|| match op {
                Op::Insert { k, vid, w } => cut.insert(k, vid, w),
                Op::Get { k } => got = Some(cut.get(k)),
                Op::Contains { k } => contained = Some(cut.contains(k)),
                Op::Iter => iterated = Some(cut.iter()),
                Op::IterAdvance { ns } => iterated_split = Some(cut.iter_advance(ns)),
                Op::Invalidate { k } => cut.invalidate(k),
                Op::InvalidateAll => cut.invalidate_all(),
                Op::InvalidateIf { p } => cut.invalidate_if(p),
                Op::Advance { ns } => cut.advance(ns),
                Op::Sync => cut.sync(),
                Op::ArmFault { .. } | Op::Gets { .. } => {}
            }))
        };
        crate::types::disarm_fault();
        if res.is_err() {
            if self.injected_fault(armed) {
                // The caller's own callback panicked. If nothing at all changed, the operation did
                // not happen. Otherwise the snapshot tells what it left behind, and the ground truth
                // follows the physical outcome: an insert whose value is in the map happened, one whose
                // value is not did not (whatever else it touched: if it re-stamped or re-weighed the old
                // entry on its way, the old value is judged under its old deadlines and weights, and
                // that is where a half-done operation shows); an invalidation removed what is gone.
                // Every state-based monitor goes on from the implementation's own post-state.
                let post = self.cut.as_ref().unwrap().snapshot();
                if post == pre && self.cut.as_ref().unwrap().sketch().table() == pre_sketch.table() {
                    self.result.stats.inc("faults_fired_without_any_effect");
                } else {
                    self.result.stats.inc("faults_fired_after_partial_effect");
                    let mut truth_after = self.truth.clone();
                    match op {
                        Op::Insert { k, vid, w } => {
                            if post.entry(k).map(|e| e.vid == vid).unwrap_or(false) {
                                let ew = self.eff_weight(w);
                                truth_after.on_insert(k, vid, ew, now);
                                self.result.stats.inc("faulted_inserts_that_took_effect");
                            }
                        }
                        Op::Get { k } => {
                            // A get that panicked is not a successful get: it is no access (C06). Its
                            // lookup may have been recorded all the same (C14 allows "at most once").
                            if is_sync && post.rlen > pre.rlen {
                                let h = self.cut.as_ref().unwrap().hash(k);
                                self.pending_reads.push(h);
                            }
                        }
                        Op::Invalidate { k } => {
                            if pre.entry(k).is_some() && post.entry(k).is_none() {
                                self.invalidations += 1;
                                truth_after.on_invalidate(k);
                            }
                        }
                        Op::InvalidateIf { p } => {
                            // what matched and is gone was invalidated; nothing else may be missing
                            self.invalidations += 1;
                            let gone: Vec<u32> = pre.entries.iter().filter(|e| p.eval(e.key, e.vid, e.weight) && post.entry(e.key).is_none()).map(|e| e.key).collect();
                            for k in gone {
                                if truth_after.cur(k).map(|l| p.eval(k, l.vid, l.weight)).unwrap_or(false) {
                                    if let Some(kt) = truth_after.keys.get_mut(&k) {
                                        kt.cur = None;
                                        kt.alt = None;
                                        kt.dead = DeadReason::InvalidatedByPred;
                                    }
                                }
                            }
                        }
                        _ => {}
                    }
                    let post_quiescent = !is_sync || (post.rlen == 0 && post.wlen == 0);
                    let now_after = self.now();
                    if !is_sync || !exact {
                        self.check_transition_weak(&op, &pre, &post, &truth_after, now_after);
                    }
                    self.truth = truth_after;
                    self.batch_valid = false;
                    if post_quiescent {
                        self.check_quiescent(&op, &pre, &post, now_after, false);
                        self.pending_new_weight = 0;
                        self.ws_at_quiescence = post.weighted_size.max(post.held_weight());
                    }
                    self.last_sync_quiescent = post_quiescent;
                }
                self.op_index += 1;
                return;
            }
            self.on_panic(&op);
            return;
        }
        self.result.ops_executed += 1;
        self.result.stats.inc("ops");
        let mid = if is_sync { self.cut.as_ref().unwrap().snapshot() } else { Snap::default() };
        let mut synced = matches!(op, Op::Sync);
        if is_sync && self.cfg.density == Density::Every && !matches!(op, Op::Advance { .. } | Op::Sync) {
            let cut = self.cut.as_mut().unwrap();
            let r = catch_unwind(AssertUnwindSafe(|| cut.sync()));
            if r.is_err() {
                self.on_panic(&Op::Sync);
                return;
            }
            synced = true;
        }
        if self.cut.as_ref().unwrap().sketch_table_len() > (1 << 18) {
            self.result.stats.inc("histories_abandoned_popularity_table_too_large");
            self.abandon();
            return;
        }
        let post = self.cut.as_ref().unwrap().snapshot();
        let mid = if is_sync { mid } else { post.clone() };
        let post_quiescent = !is_sync || (post.rlen == 0 && post.wlen == 0);

        // --- lookups judged against the truth *before* it is updated
        match op {
            Op::Get { k } => {
                match got.unwrap() {
                    Some(v) => self.judge_visible("get", k, Some(v), now),
                    None => {
                        self.result.stats.inc("lookups_get_miss");
                        self.judge_absent("get", k, now, &pre, &mid)
                    }
                }
                if is_sync && pre.wlen > 0 {
                    self.result.stats.inc("lookups_with_queued_writes");
                    self.result.stats.nontrivial.insert("C01");
                }
            }
            Op::Contains { k } => {
                if contained.unwrap() {
                    self.judge_visible("contains_key", k, None, now)
                } else {
                    self.result.stats.inc("lookups_contains_false");
                    self.judge_absent("contains_key", k, now, &pre, &mid)
                }
                if is_sync && pre.wlen > 0 {
                    self.result.stats.inc("lookups_with_queued_writes");
                }
            }
            Op::IterAdvance { ns } => {
                let (before, after) = iterated_split.take().unwrap();
                self.result.stats.inc("iterations_with_clock_advance");
                let mut seen = HashSet::new();
                for (k, v) in &before {
                    seen.insert(*k);
                    self.judge_visible("iter", *k, Some(*v), now);
                }
                for (k, v) in &after {
                    if !seen.insert(*k) {
                        self.violate(&["C16"], "iter:duplicate-key", format!("iteration yielded key {} twice", k));
                    }
                    // yielded after the clock moved: must still be live at the later reading
                    self.judge_visible("iter", *k, Some(*v), now + ns);
                }
                if !after.is_empty() {
                    self.result.stats.nontrivial.insert("C16");
                }
            }
            Op::Iter => {
                let items = iterated.take().unwrap();
                self.result.stats.inc("iterations");
                self.result.stats.add("iter_items", items.len() as u64);
                let mut seen = HashSet::new();
                for (k, v) in &items {
                    if !seen.insert(*k) {
                        self.violate(&["C16"], "iter:duplicate-key", format!("iteration yielded key {} twice", k));
                    }
                    self.judge_visible("iter", *k, Some(*v), now);
                }
                let keys: Vec<u32> = self.truth.keys.keys().copied().collect();
                for k in keys {
                    if !seen.contains(&k) {
                        self.judge_absent("iter", k, now, &pre, &mid);
                    }
                }
                if items.len() >= 2 {
                    self.result.stats.nontrivial.insert("C16");
                }
            }
            _ => {}
        }

        // --- sketch: only gets are recorded (C14), each at most once
        if !self.opts.light {
            self.check_sketch(&op, &pre_sketch, &hash_of, got.is_some());
        }

        // --- transition
        let invalidate_if_targets: HashSet<u32> = match op {
            Op::InvalidateIf { p } => pre.entries.iter().filter(|e| p.eval(e.key, e.vid, e.weight)).map(|e| e.key).collect(),
            _ => HashSet::new(),
        };

        // update the truth
        let mut truth_after = self.truth.clone();
        match op {
            Op::Insert { k, vid, w } => {
                let ew = self.eff_weight(w);
                if self.truth.key(k).map(|t| t.cur.is_none() && t.dead != DeadReason::NeverInserted).unwrap_or(false) {
                    self.reinserted.insert(k);
                    self.result.stats.inc("reinsertions_after_invalidation");
                    self.result.stats.nontrivial.insert("C07");
                }
                if self.truth.cur(k).is_some() {
                    self.result.stats.inc("updates");
                    self.result.stats.nontrivial.insert("C01");
                }
                truth_after.on_insert(k, vid, ew, now);
            }
            Op::Get { k } => {
                if let Some(Some(v)) = got {
                    // (a get that returned a value past its deadline is a violation, not an access:
                    // the entry stays dead for everything that follows)
                    if truth_after.cur(k).map(|l| l.vid == v).unwrap_or(false) && self.truth.may_be_visible(k, now) {
                        truth_after.on_get_hit(k, now);
                    } else {
                        truth_after.on_get_miss();
                    }
                } else {
                    truth_after.on_get_miss();
                }
            }
            Op::Invalidate { k } => {
                self.invalidations += 1;
                self.result.stats.inc("invalidate_calls");
                truth_after.on_invalidate(k);
            }
            Op::InvalidateAll => {
                self.invalidations += 1;
                self.result.stats.inc("invalidate_all_calls");
                if is_sync && pre.rlen > 0 {
                    self.result.stats.inc("invalidate_all_with_reads_queued");
                }
                if is_sync && pre.wlen > 0 {
                    self.result.stats.inc("invalidate_all_with_writes_queued");
                }
                truth_after.on_invalidate_all(now);
            }
            Op::InvalidateIf { p } => {
                if !is_sync {
                    self.invalidations += 1;
                    self.result.stats.inc("invalidate_entries_if_calls");
                    truth_after.on_invalidate_if(p);
                }
            }
            _ => {}
        }
        if synced {
            truth_after.on_sync(READ_LOG_SIZE);
        }
        let now_after = self.now();

        // evidence: why entries left (each cause drives one of the unlink paths of the deques)
        for e in &pre.entries {
            if post.entry(e.key).map(|q| q.vid == e.vid).unwrap_or(false) {
                continue;
            }
            let replaced = matches!(op, Op::Insert { k, .. } if k == e.key);
            let was_cur = self.truth.cur(e.key).map(|l| l.vid == e.vid).unwrap_or(false);
            let k: &'static str = if replaced {
                "entries_left_replaced"
            } else if !was_cur {
                "entries_left_invalidated"
            } else {
                match truth_after.liveness(e.key, now_after) {
                    Liveness::Dead(_) => "entries_left_invalidated",
                    Liveness::ExpiredTtl => "entries_left_ttl_expired",
                    Liveness::ExpiredTti => "entries_left_tti_expired",
                    _ => "entries_left_for_capacity",
                }
            };
            self.result.stats.inc(k);
        }

        if exact {
            // an iterator held across a clock advance: the maintenance that follows runs at the later reading
            let t_eval = if matches!(op, Op::IterAdvance { .. }) { now_after } else { now };
            self.check_transition_exact(&op, &pre, &post, &truth_after, t_eval, cand_freq.unwrap_or(0), &hash_of, &pre_sketch, &invalidate_if_targets);
        } else {
            self.check_transition_weak(&op, &pre, &post, &truth_after, now_after);
        }
        if is_sync && !exact && !self.opts.light {
            self.batch_step(&op, &pre, &post, &truth_after, now_after, matches!(got, Some(Some(_))), post_quiescent, &pre_sketch);
        }
        self.truth = truth_after;

        // --- quiescent point checks
        if post_quiescent {
            self.check_quiescent(&op, &pre, &post, now_after, !is_sync || synced);
            self.pending_new_weight = 0;
            self.ws_at_quiescence = post.weighted_size.max(post.held_weight());
        } else if let Op::Insert { w, .. } = op {
            self.pending_new_weight += self.eff_weight(w) as u64;
        }
        self.last_sync_quiescent = post_quiescent;
        self.op_index += 1;
    }

    /// Executes one op and judges only what needs no snapshot (see `RunOpts::light`).
    fn step_light(&mut self, op: Op) {
        let is_sync = self.cfg.kind == Kind::Sync;
        let now = self.now();
        let mut got: Option<Option<u64>> = None;
        let mut contained: Option<bool> = None;
        let mut iterated: Option<Vec<(u32, u64)>> = None;
        let density_every = self.cfg.density == Density::Every;
        let armed = self.armed.take();
        if let Some((site, nth)) = armed {
            crate::types::arm_fault(site, nth);
        }
        let res = {
            let cut = self.cut.as_mut().unwrap();
            catch_unwind(AssertUnwindSafe(|| {
                match op {
                    Op::ArmFault { .. } | Op::Gets { .. } => {}
                    Op::Insert { k, vid, w } => cut.insert(k, vid, w),
                    Op::Get { k } => got = Some(cut.get(k)),
                    Op::Contains { k } => contained = Some(cut.contains(k)),
                    Op::Iter => iterated = Some(cut.iter()),
                    Op::IterAdvance { ns } => {
                        let (mut x, y) = cut.iter_advance(ns);
                        x.extend(y);
                        drop(x);
                    }
                    Op::Invalidate { k } => cut.invalidate(k),
                    Op::InvalidateAll => cut.invalidate_all(),
                    Op::InvalidateIf { p } => cut.invalidate_if(p),
                    Op::Advance { ns } => cut.advance(ns),
                    Op::Sync => cut.sync(),
                }
                crate::types::disarm_fault();
                if is_sync && density_every && !matches!(op, Op::Advance { .. } | Op::Sync) {
                    cut.sync();
                }
            }))
        };
        crate::types::disarm_fault();
        if res.is_err() {
            if self.injected_fault(armed) {
                // no snapshot to compare with: the outcome of the operation is unknown
                self.result.stats.inc("faults_fired_outcome_unknown");
                self.fault_to_truth(&op, now);
                self.faulted = true;
                self.op_index += 1;
                return;
            }
            self.on_panic(&op);
            return;
        }
        self.result.ops_executed += 1;
        self.result.stats.inc("ops");
        self.result.stats.inc("ops_light");
        let empty = Snap::default();
        match op {
            Op::Get { k } => match got.unwrap() {
                Some(v) => self.judge_visible("get", k, Some(v), now),
                None => self.judge_absent("get", k, now, &empty, &empty),
            },
            Op::Contains { k } => {
                if contained.unwrap() {
                    self.judge_visible("contains_key", k, None, now)
                } else {
                    self.judge_absent("contains_key", k, now, &empty, &empty)
                }
            }
            Op::Iter => {
                for (k, v) in iterated.take().unwrap() {
                    self.judge_visible("iter", k, Some(v), now);
                }
            }
            _ => {}
        }
        let synced = matches!(op, Op::Sync) || (is_sync && density_every && !matches!(op, Op::Advance { .. }));
        match op {
            Op::Insert { k, vid, w } => {
                let ew = self.eff_weight(w);
                self.truth.on_insert(k, vid, ew, now);
                self.pending_new_weight += ew as u64;
            }
            Op::Get { k } => {
                if let Some(Some(v)) = got {
                    if self.truth.cur(k).map(|l| l.vid == v).unwrap_or(false) && self.truth.may_be_visible(k, now) {
                        self.truth.on_get_hit(k, now);
                    } else {
                        self.truth.on_get_miss();
                    }
                } else {
                    self.truth.on_get_miss();
                }
                if is_sync {
                    let h = self.cut.as_ref().unwrap().hash(k);
                    self.pending_reads.push(h);
                }
            }
            Op::Invalidate { k } => {
                self.invalidations += 1;
                self.truth.on_invalidate(k)
            }
            Op::InvalidateAll => {
                self.invalidations += 1;
                self.truth.on_invalidate_all(now)
            }
            Op::InvalidateIf { p } => {
                if !is_sync {
                    self.invalidations += 1;
                    self.truth.on_invalidate_if(p)
                }
            }
            _ => {}
        }
        if synced {
            self.truth.on_sync(READ_LOG_SIZE);
            self.pending_reads.clear();
        }
        // the unsync excess rule needs the previous quiescent point: be permissive after a light step
        self.allowed_excess = u64::MAX / 4;
        self.op_index += 1;
    }

    // ---- batch monitor (sparse sync placement): C12 / C13 / C03 over one queued batch ----------

    #[allow(clippy::too_many_arguments)]
    fn batch_step(&mut self, op: &Op, pre: &Snap, post: &Snap, truth_after: &Truth, now: u64, hit: bool, post_quiescent: bool, pre_sketch: &mini_moka::verif::VerifSketch) {
        use crate::batch::{simulate, BatchOp};
        if post_quiescent {
            let judge = matches!(op, Op::Sync)
                && self.batch_valid
                && !self.batch_ops.is_empty()
                && self.batch_base.is_some()
                && (pre.rlen, pre.wlen) == self.batch_expect
                && pre.entries.len() < mini_moka::verif::constants::SYNC_EVICTION_BATCH_SIZE
                && self.batch_ops.len() < mini_moka::verif::constants::WRITE_LOG_FLUSH_POINT;
            // the deques as they are right before this sync() must still be those of the last
            // quiescent point: a maintenance run nested in a call (even one that found the queues
            // empty) may have purged, evicted or enabled the popularity table in between
            let same_deques = self.batch_base.as_ref().map(|(b, _)| {
                b.probation.iter().map(|n| n.addr).collect::<Vec<_>>() == pre.probation.iter().map(|n| n.addr).collect::<Vec<_>>()
                    && b.write_order.iter().map(|n| n.addr).collect::<Vec<_>>() == pre.write_order.iter().map(|n| n.addr).collect::<Vec<_>>()
            }).unwrap_or(false);
            if judge && same_deques {
                let (base, _) = self.batch_base.take().unwrap();
                let ops = std::mem::take(&mut self.batch_ops);
                // no read was applied since the last quiescent point, so the table right before this
                // sync() is the one the batch starts from (possibly enabled, i.e. allocated, meanwhile)
                self.judge_batch(&base, pre_sketch, &ops, post, truth_after, now);
            }
            let sk = self.cut.as_ref().unwrap().sketch();
            self.batch_base = Some((post.clone(), sk));
            self.batch_ops.clear();
            self.batch_expect = (0, 0);
            self.batch_valid = true;
            return;
        }
        let removed = matches!(op, Op::Invalidate { k } if pre.entry(*k).is_some());
        match op {
            Op::Insert { .. } => self.batch_expect.1 += 1,
            Op::Get { .. } => self.batch_expect.0 += 1,
            Op::Invalidate { .. } if removed => self.batch_expect.1 += 1,
            _ => {}
        }
        self.batch_ops.push(BatchOp { op: *op, hit, removed });
        if (post.rlen, post.wlen) != self.batch_expect {
            // a maintenance run nested in a call applied part of the queue: not one batch any more
            self.batch_valid = false;
        }
        let _ = simulate;
    }

    fn judge_batch(&mut self, base: &Snap, base_sketch: &mini_moka::verif::VerifSketch, ops: &[crate::batch::BatchOp], post: &Snap, truth_after: &Truth, now: u64) {
        use crate::batch::simulate;
        let cap = self.cfg.cap;
        let hashes: HashMap<u32, u64> = {
            let cut = self.cut.as_ref().unwrap();
            let mut m = HashMap::new();
            for e in &base.entries {
                m.insert(e.key, cut.hash(e.key));
            }
            for b in ops {
                if let Some(k) = key_of(&b.op) {
                    m.insert(k, cut.hash(k));
                }
            }
            m
        };
        let hash_of = |k: u32| hashes.get(&k).copied().unwrap_or(0);
        let impl_live: BTreeSet<u32> = post
            .entries
            .iter()
            .filter(|e| truth_after.may_be_visible(e.key, now) && truth_after.cur(e.key).map(|l| l.vid == e.vid).unwrap_or(false))
            .map(|e| e.key)
            .collect();
        let post_keys: HashSet<u32> = post.entries.iter().map(|e| e.key).collect();
        let mut acceptable: Vec<BTreeSet<u32>> = Vec::new();
        let mut decisions = Vec::new();
        let mut skipped = 0usize;
        for limit in [Some(5usize), None] {
            let out = simulate(cap, self.cfg.weigher, base, base_sketch, ops, &hash_of, limit);
            if limit == Some(5) {
                decisions = out.decisions.clone();
                skipped = out.stale_nodes_skipped;
            }
            for purge in 0..3 {
                let mut r: Vec<(u32, u64, bool)> = out
                    .residents
                    .iter()
                    .map(|x| {
                        let live = out.final_lineage.get(&x.key).copied().flatten() == Some(x.lineage) && truth_after.may_be_visible(x.key, now);
                        (x.key, x.w, live)
                    })
                    .collect();
                match purge {
                    0 => r.retain(|x| x.2),
                    1 => {}
                    _ => r.retain(|x| x.2 || post_keys.contains(&x.0)),
                }
                if let Some(c) = cap {
                    let total: u64 = r.iter().map(|x| x.1).sum();
                    let excess = total.saturating_sub(c);
                    let mut ev = 0u64;
                    while ev < excess && !r.is_empty() {
                        ev += r.remove(0).1;
                    }
                }
                let live: BTreeSet<u32> = r.iter().filter(|x| x.2).map(|x| x.0).collect();
                if !acceptable.contains(&live) {
                    acceptable.push(live);
                }
            }
        }
        self.result.stats.inc("batches_judged");
        self.result.stats.add("batch_ops_judged", ops.len() as u64);
        if !decisions.is_empty() {
            self.result.stats.inc("batches_with_admission_decision");
            self.result.stats.nontrivial.insert("C13");
            self.result.stats.nontrivial.insert("C12");
            if decisions.iter().any(|d| d.1) {
                self.result.stats.inc("batches_with_admission");
            }
        }
        if skipped > 0 {
            self.result.stats.inc("batches_with_stale_nodes_skipped");
        }
        if acceptable.contains(&impl_live) {
            return;
        }
        let best = acceptable.iter().min_by_key(|l| l.symmetric_difference(&impl_live).count()).cloned().unwrap_or_default();
        let missing: Vec<u32> = best.difference(&impl_live).copied().collect();
        let extra: Vec<u32> = impl_live.difference(&best).copied().collect();
        let mut props: Vec<&'static str> = Vec::new();
        if !decisions.is_empty() {
            props.push("C13");
            props.push("C12");
        }
        if !missing.is_empty() || decisions.is_empty() {
            props.push("C03");
        }
        if !extra.is_empty() && missing.is_empty() {
            props.push("C04");
        }
        let text: Vec<String> = ops.iter().map(|b| b.op.to_line()).collect();
        self.violate(
            &props,
            format!("batch:{}", if !decisions.is_empty() { "admission-or-victims-differ" } else { "unexplained-residents" }),
            format!(
                "after sync() applied the batch [{}] at t={}: live residents held = {:?}, acceptable = {:?} (missing {:?}, unexpected {:?}); residents at the last quiescent point (LRU first, accounted weight) = {:?}; admission decisions predicted = {:?}",
                text.join("; "),
                now,
                impl_live,
                acceptable.iter().map(|l| l.iter().copied().collect::<Vec<_>>()).collect::<Vec<_>>(),
                missing,
                extra,
                base.probation.iter().filter_map(|n| base.entry(n.key).map(|e| (e.key, e.accounted.unwrap_or(e.weight)))).collect::<Vec<_>>(),
                decisions
            ),
        );
    }

    /// Ends the history without a verdict and releases the cache without the end-of-history checks.
    fn abandon(&mut self) {
        if let Some(c) = self.cut.take() {
            let _ = catch_unwind(AssertUnwindSafe(move || drop(c)));
            let _ = take_panic();
        }
        self.dead = true;
    }

    /// Was the panic that just unwound out of the operation the injected one? (Leaves any other
    /// panic record in place for `on_panic`.)
    fn injected_fault(&mut self, armed: Option<(u8, u32)>) -> bool {
        let mut g = LAST_PANIC.lock().unwrap_or_else(|e| e.into_inner());
        let ours = armed.is_some() && g.as_ref().map(|(_, m)| m == crate::types::FAULT_MSG).unwrap_or(false);
        if ours {
            *g = None;
            drop(g);
            self.result.stats.inc("faults_fired");
            self.result.stats.inc(match armed.unwrap().0 {
                crate::types::SITE_CLONE => "faults_fired_in_value_clone",
                crate::types::SITE_WEIGHER => "faults_fired_in_weigher",
                crate::types::SITE_EQ => "faults_fired_in_key_eq",
                crate::types::SITE_HASH => "faults_fired_in_key_hash",
                _ => "faults_fired_in_predicate",
            });
            self.result.stats.nontrivial.insert("C08");
        }
        ours
    }

    /// An operation of unknown outcome: the ground truth keeps both possibilities.
    fn fault_to_truth(&mut self, op: &Op, now: u64) {
        match *op {
            Op::Insert { k, vid, w } => {
                let ew = self.eff_weight(w);
                self.truth.on_insert_ambiguous(k, vid, ew, now);
                self.pending_new_weight += ew as u64;
            }
            Op::Get { k } => self.truth.make_uncertain(k, now, true),
            Op::Invalidate { k } => self.truth.make_uncertain(k, now, false),
            Op::InvalidateIf { p } => {
                let hit: Vec<u32> = self.truth.keys.iter().filter(|(k, t)| t.cur.map(|l| p.eval(**k, l.vid, l.weight)).unwrap_or(false)).map(|(k, _)| *k).collect();
                for k in hit {
                    self.truth.make_uncertain(k, now, false);
                }
            }
            _ => {
                // no other operation calls back into the caller's code with state half changed;
                // be safe: nothing is promised about any key any more
                let all: Vec<u32> = self.truth.keys.keys().copied().collect();
                for k in all {
                    self.truth.make_uncertain(k, now, false);
                }
            }
        }
    }

    fn on_panic(&mut self, op: &Op) {
        let (loc, msg) = take_panic().unwrap_or_else(|| ("?".into(), "?".into()));
        let loc = norm_loc(&loc);
        if msg.starts_with("MMV_BOUND") {
            let which = if msg == LOOP_BOUND_MSG { "maintenance-loop-does-not-terminate" } else { "write-op-cannot-make-progress" };
            self.violate(&["C09"], format!("progress:{}", which), format!("{} does not return: {}", op.to_line(), msg));
            if let Some(c) = self.cut.take() {
                std::mem::forget(c);
            }
            self.dead = true;
            return;
        }
        self.violate(
            &["C08"],
            format!("panic@{}", loc),
            format!("{} panicked at {}: {}", op.to_line(), loc, msg),
        );
        // the cache may be in an arbitrary state: leak it instead of running its destructor
        if let Some(c) = self.cut.take() {
            std::mem::forget(c);
        }
        self.dead = true;
    }

    // ---- C14: only `get` feeds the estimator ------------------------------------------------

    fn check_sketch(&mut self, op: &Op, pre_sketch: &mini_moka::verif::VerifSketch, hash_of: &HashMap<u32, u64>, was_get: bool) {
        let (post_table, post_rlen) = {
            let cut = self.cut.as_ref().unwrap();
            let rlen = if cut.is_sync() { cut.snapshot().rlen } else { 0 };
            (cut.sketch().table(), rlen)
        };
        let pre_table = pre_sketch.table();
        self.result.stats.inc("sketch_comparisons");
        let is_sync = self.cfg.kind == Kind::Sync;
        let enabling = pre_table.is_empty() && !post_table.is_empty();
        if enabling {
            self.result.stats.inc("sketch_enabled_events");
        }
        let all_zero = |t: &Vec<u64>| t.iter().all(|x| *x == 0);
        if !is_sync {
            // unsync: a get increments once, immediately; nothing else touches the table
            let mut expect = pre_sketch.deep_clone();
            if let Op::Get { k } = op {
                expect.increment(hash_of[k]);
                if !pre_table.is_empty() {
                    self.result.stats.inc("sketch_gets_recorded");
                    self.result.stats.nontrivial.insert("C14");
                }
            }
            let ok = if enabling { all_zero(&post_table) } else { expect.table() == post_table };
            if !ok {
                self.violate(
                    if matches!(op, Op::Get { .. }) { &["C14", "C13"][..] } else { &["C14"][..] },
                    format!("sketch:unexpected-change:{}", op.kind_name()),
                    format!("the popularity table after {} is not the table before it plus {} recorded lookup(s)", op.to_line(), if was_get { 1 } else { 0 }),
                );
            }
        } else {
            // sync: reads are applied, in order, by whichever maintenance run comes next. The read
            // of this very get is queued after the maintenance its own call may run. When the
            // sketch gets enabled during the op, counts recorded before that are forgotten.
            let own = if let Op::Get { k } = op { Some(hash_of[k]) } else { None };
            let mut seq: Vec<u64> = self.pending_reads.clone();
            if let Some(h) = own {
                seq.push(h);
            }
            let mut ok = false;
            let mut applied_all = false;
            if enabling {
                // zeros + any suffix of the pending reads
                for start in 0..=seq.len() {
                    let mut t = mini_moka::verif::VerifSketch::new();
                    t.ensure_capacity(post_table.len() as u32);
                    for h in &seq[start..] {
                        t.increment(*h);
                    }
                    if t.table() == post_table {
                        ok = true;
                        break;
                    }
                }
            } else {
                // The table before + exactly the recorded lookups that left the queue: a single thread
                // never finds the read log full, so every lookup is recorded, and whatever a
                // maintenance run takes out of the queue it applies, in order.
                let consumed = seq.len().saturating_sub(post_rlen);
                let mut t = pre_sketch.deep_clone();
                for h in seq.iter().take(consumed) {
                    t.increment(*h);
                }
                if t.table() == post_table {
                    ok = true;
                    applied_all = consumed == seq.len();
                }
            }
            if !ok {
                self.violate(
                    if matches!(op, Op::Get { .. }) { &["C14", "C13"][..] } else { &["C14"][..] },
                    format!("sketch:unexpected-change:{}", op.kind_name()),
                    format!(
                        "the popularity table after {} is not the table before it plus the first {} of the {} pending recorded lookup(s) (those that left the read queue)",
                        op.to_line(),
                        seq.len().saturating_sub(post_rlen),
                        seq.len()
                    ),
                );
            }
            if applied_all && !seq.is_empty() && post_table != pre_table {
                self.result.stats.add("sketch_gets_recorded", seq.len() as u64);
                self.result.stats.nontrivial.insert("C14");
            }
            // bookkeeping of pending reads
            if let Some(h) = own {
                self.pending_reads.push(h);
            }
            if post_rlen == 0 {
                self.pending_reads.clear();
            } else if post_rlen < self.pending_reads.len() {
                let n = self.pending_reads.len() - post_rlen;
                self.pending_reads.drain(0..n);
            }
        }
    }

    // ---- exact transition monitor (C03 C04 C12 C13) ----------------------------------------

    #[allow(clippy::too_many_arguments)]
    fn check_transition_exact(
        &mut self,
        op: &Op,
        pre: &Snap,
        post: &Snap,
        truth_after: &Truth,
        now: u64,
        cand_freq: u32,
        hash_of: &HashMap<u32, u64>,
        pre_sketch: &mini_moka::verif::VerifSketch,
        invalidate_if_targets: &HashSet<u32>,
    ) {
        let kind = self.cfg.kind;
        let cap = self.cfg.cap;
        // Maintenance works in bounded batches (100 / 500 entries per run); the one-step model
        // describes what happens below one batch, which is the scope C12 / C13 state.
        let batch = if kind == Kind::Sync { mini_moka::verif::constants::SYNC_EVICTION_BATCH_SIZE } else { mini_moka::verif::constants::UNSYNC_EVICTION_BATCH_SIZE };
        if pre.entries.len() >= batch {
            self.result.stats.inc("transition_checks_skipped_at_or_above_one_batch");
            return;
        }
        // residents in LRU order, from the implementation's own pre-state
        let mut pre_res: Vec<Res> = Vec::new();
        for n in &pre.probation {
            if let Some(e) = pre.entry(n.key) {
                if e.ao.map(|(a, _)| a) != Some(n.addr) {
                    continue; // not this entry's node: structural checks report it
                }
                // dead = not possibly visible per the truth *before* this op (at the op's clock reading)
                let live = self.truth.may_be_visible(e.key, now) && self.truth.cur(e.key).map(|l| l.vid == e.vid).unwrap_or(false);
                pre_res.push(Res {
                    key: e.key,
                    w: e.accounted.unwrap_or(e.weight) as u64,
                    live,
                    freq: pre_sketch.frequency(hash_of[&e.key]) as u32,
                });
            }
        }
        // sync invalidate_all: the watermark makes residents dead for the purge that follows
        if kind == Kind::Sync && matches!(op, Op::InvalidateAll) {
            for r in pre_res.iter_mut() {
                r.live = r.live && truth_after.may_be_visible(r.key, now);
            }
        }
        let eff_w = match op {
            Op::Insert { w, .. } => self.eff_weight(*w) as u64,
            _ => 0,
        };
        let has_purge = self.cfg.ttl.is_some() || self.cfg.tti.is_some() || (kind == Kind::Sync && (pre.valid_after.is_some() || matches!(op, Op::InvalidateAll)));
        let post_keys: HashSet<u32> = post.entries.iter().map(|e| e.key).collect();
        let survivors: HashSet<u32> = pre_res.iter().filter(|r| !r.live && post_keys.contains(&r.key)).map(|r| r.key).collect();

        let impl_live: BTreeSet<u32> = post
            .entries
            .iter()
            .filter(|e| truth_after.may_be_visible(e.key, now) && truth_after.cur(e.key).map(|l| l.vid == e.vid).unwrap_or(false))
            .map(|e| e.key)
            .collect();

        let mut outs: Vec<(ModelOut, BTreeSet<u32>)> = Vec::new();
        let pending_excess = cap.map(|c| pre_res.iter().map(|r| r.w).sum::<u64>() > c).unwrap_or(false);
        for evict_first in [false, true] {
            if evict_first && !(kind == Kind::Sync && pending_excess) {
                continue;
            }
            for purge in [Purge::AllFirst, Purge::NoneFirst, Purge::SurvivorsStay] {
                let m = model_step(kind, &pre_res, cap, op, eff_w, cand_freq, purge, &survivors, has_purge, invalidate_if_targets, evict_first);
                let live: BTreeSet<u32> = m.residents.iter().copied().filter(|k| truth_after.may_be_visible(*k, now)).collect();
                if !outs.iter().any(|(_, l)| *l == live) {
                    outs.push((m, live));
                }
            }
        }

        // evidence
        for (m, _) in outs.iter().take(1) {
            if let Some((admitted, victims)) = &m.admission {
                self.result.stats.inc(if *admitted { "admission_decisions_admit" } else { "admission_decisions_reject" });
                self.result.stats.nontrivial.insert("C13");
                if *admitted {
                    self.result.stats.nontrivial.insert("C12");
                    match victims.len() {
                        0 => {}
                        1 => self.result.stats.inc("admissions_with_1_victim"),
                        2 => self.result.stats.inc("admissions_with_2_victims"),
                        _ => self.result.stats.inc("admissions_with_3plus_victims"),
                    }
                    if victims.iter().any(|v| pre_res.iter().any(|r| r.key == *v && r.w == 0)) {
                        self.result.stats.inc("evictions_with_zero_weight_victim");
                    }
                }
                // equal estimates (where `>` versus `>=` shows)
                if let Op::Insert { k, .. } = op {
                    let mut vw = 0u64;
                    let mut vf = 0u32;
                    for r in &pre_res {
                        if vw >= eff_w {
                            break;
                        }
                        vw += r.w;
                        vf += r.freq;
                    }
                    let _ = k;
                    if vw >= eff_w && vf == cand_freq {
                        self.result.stats.inc("admission_decisions_with_equal_estimates");
                    }
                    if cand_freq > 0 {
                        self.result.stats.inc("admission_decisions_with_popular_candidate");
                    }
                }
            }
            if !m.growth_victims.is_empty() {
                self.result.stats.inc("growth_evictions");
                self.result.stats.nontrivial.insert("C12");
                self.result.stats.nontrivial.insert("C04");
                if m.growth_victims.len() >= 2 {
                    self.result.stats.inc("growth_evictions_multi_victim");
                }
            }
            if let Op::Insert { k, .. } = op {
                if m.admission.is_none() && !pre_res.iter().any(|r| r.key == *k) {
                    self.result.stats.inc("fitting_inserts");
                    if let Some(c) = cap {
                        if pre.weighted_size + eff_w == c || self.truth.total_inserted_weight > c {
                            self.result.stats.inc("fitting_inserts_into_previously_full_cache");
                            self.result.stats.nontrivial.insert("C03");
                        }
                    }
                }
            }
        }

        if outs.iter().any(|(_, l)| *l == impl_live) {
            // Acceptable given what is physically held. But if the outcome is only explained by a
            // dead entry that an earlier maintenance run should have purged, a live entry was
            // refused or displaced for the sake of garbage (C03).
            let stale_keys: Vec<(u32, String)> = pre
                .entries
                .iter()
                .filter_map(|e| self.stale_dead.get(&(e.key, e.vid)).map(|c| (e.key, c.clone())))
                .collect();
            if !stale_keys.is_empty() && matches!(op, Op::Insert { .. }) {
                let cleaned: Vec<Res> = pre_res.iter().filter(|r| !stale_keys.iter().any(|(k, _)| *k == r.key)).cloned().collect();
                let mut ok = false;
                for purge in [Purge::AllFirst, Purge::NoneFirst, Purge::SurvivorsStay] {
                    let m = model_step(kind, &cleaned, cap, op, eff_w, cand_freq, purge, &survivors, has_purge, invalidate_if_targets, false);
                    let live: BTreeSet<u32> = m.residents.iter().copied().filter(|k| truth_after.may_be_visible(*k, now)).collect();
                    if live == impl_live {
                        ok = true;
                        break;
                    }
                }
                if !ok {
                    let cause = if stale_keys.iter().all(|(_, c)| c == "F-S3" || c == "F-S3c") {
                        "F-S3"
                    } else if stale_keys.iter().all(|(_, c)| c == "F-S5") {
                        "F-S5"
                    } else if stale_keys.iter().all(|(_, c)| c != "other") {
                        "F-S3+F-S5"
                    } else {
                        "other"
                    };
                    self.violate(
                        &["C03"],
                        format!("capacity-taken-by-entry-that-maintenance-should-have-purged:{}", cause),
                        format!(
                            "after {} at t={}: live residents held = {:?}; without the dead entries {:?}, which an earlier maintenance run should have purged, the outcome would differ (a fitting insert was refused, or residents were displaced, because of them)",
                            op.to_line(), now, impl_live, stale_keys
                        ),
                    );
                }
            }
            return;
        }
        // mismatch: classify against the closest acceptable outcome
        let (m, model_live) = outs
            .iter()
            .min_by_key(|(_, l)| l.symmetric_difference(&impl_live).count())
            .cloned()
            .unwrap();
        let missing: Vec<u32> = model_live.difference(&impl_live).copied().collect();
        let extra: Vec<u32> = impl_live.difference(&model_live).copied().collect();
        let mut props: Vec<&'static str> = Vec::new();
        let sig: String;
        let is_new_insert = matches!(op, Op::Insert { k, .. } if !pre_res.iter().any(|r| r.key == *k && r.live));
        if let (Some((admit, victims)), Op::Insert { k, .. }) = (&m.admission, op) {
            let impl_admitted = impl_live.contains(k);
            if *admit != impl_admitted {
                props.push("C13");
                sig = format!("admission:model-{}-impl-{}", if *admit { "admits" } else { "rejects" }, if impl_admitted { "admits" } else { "rejects" });
                if !admit && !missing.is_empty() {
                    // residents were displaced by a candidate that is not more popular
                    props.push("C03");
                }
            } else if *admit {
                props.push("C12");
                props.push("C13");
                sig = "admission:wrong-victims".into();
                let _ = victims;
            } else {
                props.push("C13");
                props.push("C03");
                sig = "admission:rejected-but-residents-touched".into();
            }
        } else if !m.growth_victims.is_empty() || (!extra.is_empty() && missing.is_empty()) {
            if !missing.is_empty() {
                props.push("C12");
                props.push("C03");
                sig = "eviction:wrong-victims".into();
            } else {
                props.push("C12");
                props.push("C04");
                sig = "eviction:too-few-victims".into();
            }
        } else if is_new_insert && missing.iter().any(|k| matches!(op, Op::Insert { k: kk, .. } if kk == k)) {
            props.push("C03");
            sig = "insert:fitting-insert-not-retained".into();
        } else if !missing.is_empty() {
            props.push("C03");
            if matches!(op, Op::Insert { .. }) && cap.is_some() {
                props.push("C12");
                sig = "insert:fitting-insert-evicted-residents".into();
            } else {
                sig = format!("loss:unexplained-disappearance:{}", op.kind_name());
            }
            if self.invalidations > 0 {
                // "nothing else is affected": an untargeted live entry, or one (re-)inserted after an
                // invalidation, vanished
                props.push("C07");
            }
        } else {
            props.push("C03");
            sig = format!("transition:unexpected-residents:{}", op.kind_name());
        }
        self.violate(
            &props,
            sig,
            format!(
                "after {} at t={}: live residents held = {:?}, acceptable = {:?} (missing {:?}, unexpected {:?}); pre LRU order = {:?}, candidate estimate = {}",
                op.to_line(),
                now,
                impl_live,
                outs.iter().map(|(_, l)| l.iter().copied().collect::<Vec<_>>()).collect::<Vec<_>>(),
                missing,
                extra,
                pre_res.iter().map(|r| (r.key, r.w, r.live, r.freq)).collect::<Vec<_>>(),
                cand_freq
            ),
        );
    }

    // ---- weak transition monitor for sparse sync placement -----------------------------------

    fn check_transition_weak(&mut self, op: &Op, pre: &Snap, post: &Snap, truth_after: &Truth, now: u64) {
        // every must-live key that was physically held before and is not held afterwards
        // must be explainable by capacity pressure
        let cap = self.cfg.cap;
        let target = match op {
            Op::Invalidate { k } => Some(*k),
            _ => None,
        };
        for e in &pre.entries {
            if Some(e.key) == target {
                continue;
            }
            if !truth_after.must_be_live(e.key, now) {
                continue;
            }
            let l = *truth_after.cur(e.key).unwrap();
            if post.entry(e.key).is_some() {
                continue;
            }
            // held before with an older value also counts: the key itself vanished
            // Upper bound of what the counters can reach while the queued ops are applied: the
            // total at the last quiescent point plus every insert queued since (queued removals
            // may be applied later than the inserts, so they do not count).
            let pressure = match cap {
                None => false,
                Some(c) => self.ws_at_quiescence + self.pending_new_weight + match op {
                    Op::Insert { w, .. } => self.eff_weight(*w) as u64,
                    _ => 0,
                } > c,
            };
            if !pressure {
                let mut props = vec!["C03"];
                if self.invalidations > 0 {
                    props.push("C07");
                }
                self.violate(
                    &props,
                    format!("loss:no-capacity-pressure:{}", op.kind_name()),
                    format!(
                        "key {} (value {}) was held before {} and is gone afterwards at t={}, although it is live and the weight counted at the last quiescent point ({}) plus all inserts queued since ({}) cannot exceed the capacity {:?}",
                        e.key,
                        l.vid,
                        op.to_line(),
                        now,
                        self.ws_at_quiescence,
                        self.pending_new_weight,
                        cap
                    ),
                );
            } else {
                self.result.stats.inc("weak_mode_disappearances_under_pressure");
            }
        }
    }

    // ---- quiescent point: structure, counters, capacity, live objects ------------------------

    fn check_quiescent(&mut self, op: &Op, pre: &Snap, post: &Snap, now: u64, maintained: bool) {
        let is_sync = self.cfg.kind == Kind::Sync;
        self.result.stats.inc("quiescent_points");
        // structural walker (C08 preconditions, C11)
        let errs = structural_errors(post, is_sync, self.cfg.ttl.is_some());
        for e in errs {
            let sig = format!("structure:{}", e.0);
            self.violate(&["C08", "C11"], sig, e.1);
        }
        // C10: counters equal what is physically held
        let n = post.entries.len() as u64;
        let wsum: u64 = post.entries.iter().map(|e| e.weight as u64).sum();
        let removal_kind: &'static str = match op {
            Op::Invalidate { .. } => "counter_checks_after_invalidate",
            Op::InvalidateAll => "counter_checks_after_invalidate_all",
            Op::InvalidateIf { .. } => "counter_checks_after_invalidate_entries_if",
            Op::Insert { .. } => "counter_checks_after_insert",
            Op::Get { .. } | Op::Contains { .. } => "counter_checks_after_lookup",
            Op::Sync => "counter_checks_after_sync",
            _ => "counter_checks_after_other",
        };
        self.result.stats.inc(removal_kind);
        if pre.entries.len() > post.entries.len() {
            self.result.stats.nontrivial.insert("C10");
            self.result.stats.inc("counter_checks_after_entries_left");
        }
        if post.entry_count != n {
            self.violate(
                &["C10"],
                format!("counters:entry_count:{}", op.kind_name()),
                format!("after {}: entry_count() = {}, but {} entries are held ({:?})", op.to_line(), post.entry_count, n, post.keys()),
            );
        }
        if post.weighted_size != wsum {
            self.violate(
                &["C10"],
                format!("counters:weighted_size:{}", op.kind_name()),
                format!("after {}: weighted_size() = {}, but the held entries weigh {}", op.to_line(), post.weighted_size, wsum),
            );
        }
        // C10: "the sum of the weigher over them": the weight an entry is held with is what the
        // caller's weigher says about its current value (1 without a weigher), whatever the configuration
        for e in &post.entries {
            if let Some(l) = self.truth.cur(e.key) {
                if l.vid == e.vid && l.weight != e.weight {
                    self.violate(
                        &["C10", "C17"],
                        "counters:held-weight-is-not-the-weigher's",
                        format!("after {}: key {} (value {}) is held with weight {}, the weigher says {} (weigher configured: {}, max_capacity {:?})", op.to_line(), e.key, e.vid, e.weight, l.weight, self.cfg.weigher, self.cfg.cap),
                    );
                    break;
                }
            }
        }
        // C10 second sentence / C11: what is held but can no longer be observed
        let mut hidden_expired = 0u64;
        let mut expired_held: Vec<(u32, u64, Liveness)> = Vec::new();
        let mut stale_now: HashMap<(u32, u64), String> = HashMap::new();
        for e in &post.entries {
            let cur_matches = self.truth.cur(e.key).map(|l| l.vid == e.vid).unwrap_or(false);
            let lv = if cur_matches { self.truth.liveness(e.key, now) } else { Liveness::Dead(self.truth.key(e.key).map(|t| t.dead).unwrap_or(DeadReason::NeverInserted)) };
            match lv {
                Liveness::Live | Liveness::Maybe => {}
                Liveness::ExpiredTtl | Liveness::ExpiredTti => {
                    hidden_expired += 1;
                    // maintenance runs before the op's own effect: only what was already held
                    // (with this value) before the op could have been purged by it
                    if pre.entry(e.key).map(|p| p.vid == e.vid).unwrap_or(false) {
                        expired_held.push((e.key, e.vid, lv));
                    }
                }
                Liveness::Dead(_) if !maintained => {}
                // maintenance purges in bounded batches (100 / 500 entries per run): with more dead
                // entries than that, one run legitimately leaves some behind
                Liveness::Dead(_) if pre.entries.len() >= (if is_sync { mini_moka::verif::constants::SYNC_EVICTION_BATCH_SIZE } else { mini_moka::verif::constants::UNSYNC_EVICTION_BATCH_SIZE }) => {
                    self.result.stats.inc("dead_entries_left_by_a_batch_limited_purge");
                }
                Liveness::Dead(reason) => {
                    // held although invalidated / replaced, after maintenance has run
                    if !cur_matches && self.truth.cur(e.key).is_some() {
                        self.violate(
                            &["C01", "C10", "C11"],
                            "held:stale-value-after-maintenance",
                            format!("after {}: key {} is held with value {} but the latest insert wrote {:?}", op.to_line(), e.key, e.vid, self.truth.cur(e.key).map(|l| l.vid)),
                        );
                    } else if fs3_blocked(post, e, is_sync && self.cfg.ttl.is_none()) {
                        stale_now.insert((e.key, e.vid), "F-S3".into());
                        self.violate(
                            &["C10", "C11"],
                            F_S3_SIG,
                            format!(
                                "after {} at t={}: key {} (value {}) was invalidated by invalidate_all but is still held and counted after maintenance: the access-order purge scan stopped at an entry (this one or one in front of it) whose last_accessed >= valid_after {:?}; lm {:?}, la {:?}; no time_to_live",
                                op.to_line(), now, e.key, e.vid, post.valid_after, e.lm, e.la
                            ),
                        );
                    } else if is_sync && self.cfg.ttl.is_none() && self.fs3_blocker_evicted(pre, post) {
                        stale_now.insert((e.key, e.vid), "F-S3c".into());
                        self.violate(
                            &["C10", "C11"],
                            "F-S3c:invalidated-entry-held:purge-scan-stopped-at-entry-with-last_modified<valid_after<=last_accessed-that-the-size-eviction-of-the-same-run-removed:no-ttl",
                            format!(
                                "after {} at t={}: key {} (value {}) was invalidated by invalidate_all but is still held and counted after this maintenance run: the access-order scan stopped at an invalidated entry that had been read at or after valid_after {:?}, which the size eviction of the same run then removed; no time_to_live",
                                op.to_line(), now, e.key, e.vid, post.valid_after
                            ),
                        );
                    } else {
                        stale_now.insert((e.key, e.vid), "other".into());
                        self.violate(
                            &["C10", "C11", "C07"],
                            format!("held:invalidated-entry-after-maintenance:{:?}", reason),
                            format!(
                                "after {} at t={}: key {} (value {}) is dead ({:?}) but still held and counted after maintenance (lm {:?}, la {:?}, valid_after {:?})",
                                op.to_line(), now, e.key, e.vid, reason, e.lm, e.la, post.valid_after
                            ),
                        );
                    }
                }
            }
        }
        if hidden_expired > 0 {
            self.result.stats.inc("quiescent_points_with_expired_unpurged_entries");
        }
        // C11 (and the capacity they keep occupied: C03): entries whose deadline has passed are
        // released once maintenance has run at that clock reading. Maintenance purges in bounded
        // batches, so this is only demanded while fewer dead entries than one batch were held.
        let ran_maintenance = if is_sync {
            maintained
        } else {
            matches!(op, Op::Get { .. } | Op::Insert { .. } | Op::Contains { .. } | Op::Invalidate { .. } | Op::InvalidateIf { .. })
        };
        let batch = if is_sync { mini_moka::verif::constants::SYNC_EVICTION_BATCH_SIZE } else { mini_moka::verif::constants::UNSYNC_EVICTION_BATCH_SIZE };
        if ran_maintenance && !expired_held.is_empty() && pre.entries.len() < batch {
            self.result.stats.inc("expired_entries_held_after_maintenance_checks_failed");
            let (k, v, lv) = expired_held[0];
            // known cause: the idle purge scans the access-order deque from the front and stops at
            // the first entry that is not expired; an expired entry behind an unexpired one stays
            let blocked = lv == Liveness::ExpiredTti && is_sync && {
                let my = post.entry(k).and_then(|e| e.ao).map(|x| x.0);
                let tti = self.cfg.tti.unwrap_or(0);
                let mut found = false;
                for n in &post.probation {
                    if Some(n.addr) == my {
                        break;
                    }
                    if let Some(b) = post.entry(n.key) {
                        if b.la.map(|la| la.saturating_add(tti) > now).unwrap_or(false) {
                            found = true;
                            break;
                        }
                    }
                }
                found
            };
            // ... or the unexpired entry in front of it was removed by the size eviction of the very
            // same run, after the purge scan had stopped at it (attributed from the harness' log)
            let blocker_evicted = !blocked
                && lv == Liveness::ExpiredTti
                && is_sync
                && pre.entries.iter().any(|p| {
                    post.entry(p.key).is_none()
                        && self.truth.cur(p.key).map(|l| l.vid == p.vid).unwrap_or(false)
                        && matches!(self.truth.liveness(p.key, now), Liveness::Live | Liveness::Maybe)
                });
            for (kk, vv, _) in &expired_held {
                stale_now.insert((*kk, *vv), if blocked || blocker_evicted { "F-S5".into() } else { "other".into() });
            }
            let sig = if blocked {
                F_S5_SIG.to_string()
            } else if blocker_evicted {
                F_S5C_SIG.to_string()
            } else {
                format!("held:expired-entry-after-maintenance:{}", if lv == Liveness::ExpiredTtl { "ttl" } else { "tti" })
            };
            self.violate(
                &["C11"],
                sig,
                format!(
                    "after {} at t={}: key {} (value {}) passed its {} deadline but is still held (and counted) after maintenance ran at this clock reading; {} such entries",
                    op.to_line(), now, k, v, if lv == Liveness::ExpiredTtl { "time_to_live" } else { "time_to_idle" }, expired_held.len()
                ),
            );
        }
        if ran_maintenance {
            self.result.stats.inc("expired_entries_held_after_maintenance_checks");
        }
        // C04: capacity bound
        if let Some(cap) = self.cfg.cap {
            let excess = wsum.saturating_sub(cap);
            self.result.stats.max("max_held_weight_permille_of_capacity", if cap > 0 { wsum * 1000 / cap } else { wsum * 1000 });
            if wsum >= cap && cap > 0 {
                self.result.stats.inc("quiescent_points_with_full_cache");
                self.result.stats.nontrivial.insert("C04");
            }
            let allowed = if is_sync {
                // once an explicit sync() has run (below one eviction batch) nothing may be over;
                // otherwise an excess that an earlier, batch-limited run left behind may persist
                if maintained && pre.entries.len() < mini_moka::verif::constants::SYNC_EVICTION_BATCH_SIZE {
                    0
                } else {
                    self.allowed_excess
                        + match op {
                            Op::Insert { w, .. } => self.eff_weight(*w) as u64,
                            _ => 0,
                        }
                }
            } else {
                // unsync: an update that grew an entry may leave an excess of at most its growth;
                // ops that do not run the eviction keep the excess they found
                match op {
                    Op::Insert { k, w, .. } => {
                        let old = pre.entry(*k).map(|e| e.weight as u64);
                        match old {
                            Some(o) => (self.eff_weight(*w) as u64).saturating_sub(o),
                            None => 0,
                        }
                    }
                    Op::Iter | Op::IterAdvance { .. } | Op::Contains { .. } | Op::InvalidateAll | Op::Advance { .. } | Op::Sync => self.allowed_excess,
                    _ => 0,
                }
            };
            // above one eviction batch the excess is removed over several following operations
            let batch_limit = if is_sync { mini_moka::verif::constants::SYNC_EVICTION_BATCH_SIZE } else { mini_moka::verif::constants::UNSYNC_EVICTION_BATCH_SIZE };
            let below_batch = pre.entries.len() < batch_limit && post.entries.len() < batch_limit;
            if excess > allowed && below_batch {
                self.violate(
                    &["C04"],
                    format!("capacity:resident-weight-over-max:{}", op.kind_name()),
                    format!("after {}: held weight {} > max_capacity {} (allowed transient excess {})", op.to_line(), wsum, cap, allowed),
                );
            }
            if excess > 0 {
                self.result.stats.inc("growth_overshoot_episodes");
            }
            self.allowed_excess = excess;
            // a fresh insert heavier than the capacity is never retained
            if let Op::Insert { k, w, .. } = op {
                let ew = self.eff_weight(*w) as u64;
                if ew > cap {
                    self.result.stats.inc("oversized_inserts");
                    if pre.entry(*k).is_none() && post.entry(*k).is_some() {
                        self.violate(&["C04"], "capacity:oversized-insert-retained", format!("{} (weight {} > max_capacity {}) is retained", op.to_line(), ew, cap));
                    }
                }
            }
        }
        // C11: live objects equal entries held
        let os = obj_stats();
        self.result.stats.inc("live_object_checks");
        if os.double_drops > 0 {
            self.violate(&["C11", "C08"], "objects:double-drop", format!("{} object(s) dropped twice", os.double_drops));
        }
        if os.live_keys != n as i64 || os.live_vals != n as i64 {
            self.violate(
                &["C11"],
                format!("objects:live-count:{}", op.kind_name()),
                format!("after {}: {} entries held, but {} key objects and {} value objects are alive", op.to_line(), n, os.live_keys, os.live_vals),
            );
        }
        self.result.stats.max("max_peak_live_values", os.live_vals.max(0) as u64);
        // remember which dead entries survived a maintenance run (see check_transition_exact)
        if ran_maintenance {
            self.stale_dead = stale_now;
        } else {
            let held: HashSet<(u32, u64)> = post.entries.iter().map(|e| (e.key, e.vid)).collect();
            self.stale_dead.retain(|k, _| held.contains(k));
        }
        // C12 cross-check: probation order equals recency order of live residents
        if self.exact() {
            let mut order: Vec<(u64, u32)> = Vec::new();
            let mut impl_order: Vec<u32> = Vec::new();
            for nn in &post.probation {
                if let Some(l) = self.truth.cur(nn.key) {
                    if self.truth.may_be_visible(nn.key, now) && post.entry(nn.key).map(|e| e.vid == l.vid).unwrap_or(false) {
                        impl_order.push(nn.key);
                        order.push((l.use_seq, nn.key));
                    }
                }
            }
            order.sort();
            let want: Vec<u32> = order.into_iter().map(|x| x.1).collect();
            if impl_order.len() >= 2 {
                self.result.stats.inc("recency_order_checks");
            }
            if want != impl_order {
                self.violate(
                    &["C12"],
                    format!("recency-order:{}", op.kind_name()),
                    format!("after {}: LRU order of live residents is {:?}, order of last use is {:?}", op.to_line(), impl_order, want),
                );
            }
        }
    }

    /// Was an entry that satisfies the F-S3 predicate per the harness' own log (invalidated by
    /// the watermark, but read at or after it) held before this op and removed during it?
    fn fs3_blocker_evicted(&self, pre: &Snap, post: &Snap) -> bool {
        let va = match post.valid_after {
            Some(v) => v,
            None => return false,
        };
        pre.entries.iter().any(|p| {
            post.entry(p.key).map(|q| q.vid != p.vid).unwrap_or(true)
                && self
                    .truth
                    .key(p.key)
                    .and_then(|t| t.last_dead)
                    .map(|l| l.vid == p.vid && l.t_mod < va && l.a_hi >= va)
                    .unwrap_or(false)
        })
    }

    // ---- end of history ------------------------------------------------------------------------

    /// Drops the cache (possibly with operations still queued) and checks that everything
    /// given to it has been released exactly once.
    pub fn drop_cache(&mut self, mid_history: bool) {
        if let Some(cut) = self.cut.take() {
            let queued = if cut.is_sync() {
                let s = cut.snapshot();
                s.rlen + s.wlen
            } else {
                0
            };
            let r = catch_unwind(AssertUnwindSafe(move || drop(cut)));
            if r.is_err() {
                let (loc, msg) = take_panic().unwrap_or_else(|| ("?".into(), "?".into()));
                self.violate(&["C08"], format!("panic@{}", norm_loc(&loc)), format!("dropping the cache panicked: {}", msg));
                self.dead = true;
                return;
            }
            self.result.stats.inc("caches_dropped");
            if queued > 0 {
                self.result.stats.inc("caches_dropped_with_queued_ops");
                self.result.stats.nontrivial.insert("C11");
            }
            if mid_history {
                self.result.stats.inc("caches_dropped_mid_history");
            }
            let os = obj_stats();
            self.result.stats.add("objects_created", os.keys_created + os.vals_created + os.vals_cloned);
            if os.double_drops > 0 {
                self.violate(&["C11", "C08"], "objects:double-drop", format!("{} object(s) dropped twice", os.double_drops));
            }
            if os.live_keys != 0 || os.live_vals != 0 {
                self.violate(
                    &["C11"],
                    "objects:alive-after-drop",
                    format!("after dropping the cache ({} ops queued): {} key objects and {} value objects still alive", queued, os.live_keys, os.live_vals),
                );
            }
        }
        self.dead = true;
    }

    pub fn finish(mut self) -> (RunResult, Vec<Violation>) {
        if !self.dead {
            self.drop_cache(false);
        } else if let Some(c) = self.cut.take() {
            // stopped at a violation: release quietly
            let _ = catch_unwind(AssertUnwindSafe(move || drop(c)));
            let _ = take_panic();
        }
        (self.result, self.known_hits)
    }
}

pub const F_S3_SIG: &str = "F-S3:invalidated-entry-held:access-order-purge-scan-stopped-at-entry-with-last_accessed>=valid_after:no-ttl";

/// Is the (dead) entry `e`, in access order, at or behind a node whose entry has
/// last_accessed >= valid_after? The purge scan for invalidate_all stops at such a node.
pub fn fs3_blocked(post: &Snap, e: &crate::cut::ESnap, applicable: bool) -> bool {
    if !applicable {
        return false;
    }
    let va = match post.valid_after {
        Some(v) => v,
        None => return false,
    };
    let my_addr = match e.ao {
        Some((a, _)) => a,
        None => return false,
    };
    for n in &post.probation {
        if let Some(b) = post.entry(n.key) {
            if b.ao.map(|x| x.0) == Some(n.addr) {
                if let Some(la) = b.la {
                    if la >= va {
                        return true;
                    }
                }
            }
        }
        if n.addr == my_addr {
            return false;
        }
    }
    false
}

pub const F_S5_SIG: &str = "F-S5:idle-expired-entry-held:access-order-purge-scan-stopped-at-unexpired-entry-in-front:reads-applied-before-the-writes-that-admitted-them";
pub const F_S5C_SIG: &str = "F-S5c:idle-expired-entry-held:purge-scan-stopped-at-unexpired-entry-that-the-size-eviction-of-the-same-run-removed";
pub const F_S3W_SIG: &str = "F-S3w:invalidated-entry-held:write-order-and-access-order-purge-scans-stopped-at-entries-stamped>=valid_after:ops-queued-out-of-timestamp-order";

/// The write-order analogue (time_to_live configured): is `e` behind a write-order node whose
/// entry has last_modified >= valid_after? Only racing threads can queue write ops out of
/// timestamp order, so this never happens in single-threaded histories.
pub fn wo_blocked(post: &Snap, e: &crate::cut::ESnap) -> bool {
    let va = match post.valid_after {
        Some(v) => v,
        None => return false,
    };
    let my_addr = match e.wo {
        Some(a) => a,
        None => return false,
    };
    for n in &post.write_order {
        if n.addr == my_addr {
            return false;
        }
        if let Some(b) = post.entry(n.key) {
            if b.wo == Some(n.addr) {
                if let Some(lm) = b.lm {
                    if lm >= va {
                        return true;
                    }
                }
            }
        }
    }
    false
}

/// Structural invariants at a quiescent point. Returns (short code, description).
pub fn structural_errors(s: &Snap, is_sync: bool, has_wo: bool) -> Vec<(String, String)> {
    let mut errs = Vec::new();
    for e in &s.deque_errors {
        errs.push(("deque-links".to_string(), e.clone()));
    }
    if !s.window.is_empty() || !s.protected.is_empty() {
        errs.push(("unused-deque-not-empty".into(), format!("window has {} nodes, protected has {}", s.window.len(), s.protected.len())));
    }
    let ao_addr: HashMap<usize, &crate::cut::NSnap> = s.probation.iter().map(|n| (n.addr, n)).collect();
    let wo_addr: HashMap<usize, &crate::cut::NSnap> = s.write_order.iter().map(|n| (n.addr, n)).collect();
    // no key twice in a deque
    for (name, dq) in [("probation", &s.probation), ("write_order", &s.write_order)] {
        let mut seen = HashSet::new();
        for n in dq.iter() {
            if !seen.insert(n.key) {
                errs.push(("duplicate-key-in-deque".into(), format!("key {} appears twice in the {} deque", n.key, name)));
            }
        }
    }
    let mut owned_ao = HashSet::new();
    let mut owned_wo = HashSet::new();
    for e in &s.entries {
        if is_sync && !e.admitted {
            errs.push(("resident-not-admitted".into(), format!("key {} is in the map but not admitted at a quiescent point", e.key)));
            continue;
        }
        if is_sync && e.dirty {
            errs.push(("resident-dirty".into(), format!("key {} is still dirty at a quiescent point", e.key)));
        }
        match e.ao {
            None => errs.push(("missing-ao-node".into(), format!("key {} has no access-order node", e.key))),
            Some((addr, tag)) => match ao_addr.get(&addr) {
                None => errs.push(("dangling-ao-pointer".into(), format!("key {}: access-order pointer {:#x} is not a node of the probation deque", e.key, addr))),
                Some(n) => {
                    if tag != 1 {
                        errs.push(("wrong-region-tag".into(), format!("key {}: region tag {}", e.key, tag)));
                    }
                    if n.key != e.key || (is_sync && n.info != e.info) {
                        errs.push(("ao-node-of-other-entry".into(), format!("key {}: its access-order node belongs to key {}", e.key, n.key)));
                    }
                    owned_ao.insert(addr);
                }
            },
        }
        match (e.wo, has_wo) {
            (None, true) => errs.push(("missing-wo-node".into(), format!("key {} has no write-order node although time_to_live is set", e.key))),
            (Some(addr), true) => match wo_addr.get(&addr) {
                None => errs.push(("dangling-wo-pointer".into(), format!("key {}: write-order pointer {:#x} is not a node of the write-order deque", e.key, addr))),
                Some(n) => {
                    if n.key != e.key || (is_sync && n.info != e.info) {
                        errs.push(("wo-node-of-other-entry".into(), format!("key {}: its write-order node belongs to key {}", e.key, n.key)));
                    }
                    owned_wo.insert(addr);
                }
            },
            (Some(_), false) => errs.push(("unexpected-wo-node".into(), format!("key {} has a write-order node without time_to_live", e.key))),
            (None, false) => {}
        }
        if let Some(acc) = e.accounted {
            if acc != e.weight {
                errs.push(("accounted-weight".into(), format!("key {}: accounted weight {} != weight {} at a quiescent point", e.key, acc, e.weight)));
            }
        }
    }
    for n in &s.probation {
        if !owned_ao.contains(&n.addr) {
            errs.push(("orphan-ao-node".into(), format!("probation node {:#x} (key {}) is owned by no map entry", n.addr, n.key)));
        }
    }
    for n in &s.write_order {
        if !owned_wo.contains(&n.addr) {
            errs.push(("orphan-wo-node".into(), format!("write-order node {:#x} (key {}) is owned by no map entry", n.addr, n.key)));
        }
    }
    errs
}

/// Runs a complete recorded history.
pub fn run_history(h: &History, opts: RunOpts) -> (RunResult, Vec<Violation>) {
    let mut d = Driver::new(&h.cfg, opts);
    for op in &h.ops {
        d.step(*op);
        if d.dead {
            break;
        }
    }
    d.finish()
}
