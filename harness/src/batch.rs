//! Reference model for one *batch* of queued operations on the concurrent cache: the operations a
//! single thread issued since the last quiescent point, applied by one explicit `sync()` with no
//! maintenance in between. C12 says that the victim rule holds "with respect to the order in which
//! maintenance applied the recorded reads and writes": a maintenance run applies the recorded reads
//! first, then the writes in queue order. The model is fed with the implementation's own state at
//! the last quiescent point (residents in LRU order with the weights accounted for them, the
//! popularity table) and predicts the residents after the writes; purge of dead entries and the
//! final size eviction are left to the caller (they are open choices, see `monitor.rs`).

use crate::cut::Snap;
use crate::hist::Op;
use mini_moka::verif::VerifSketch;
use std::collections::HashMap;

#[derive(Clone, Debug, PartialEq, Eq)]
pub struct BRes {
    pub key: u32,
    pub lineage: u32,
    pub w: u64,
}

#[derive(Clone, Debug)]
pub struct BatchOp {
    pub op: Op,
    /// for `Get`: did it return a value?
    pub hit: bool,
    /// for `Invalidate`: was the key in the map (so that a Remove op was queued)?
    pub removed: bool,
}

#[derive(Clone, Debug, Default)]
pub struct BatchOutcome {
    /// residents in LRU order after all writes were applied
    pub residents: Vec<BRes>,
    /// keys whose candidate went through an admission decision: (key, admitted)
    pub decisions: Vec<(u32, bool)>,
    /// final lineage per key (None: the key is not in the map after the batch)
    pub final_lineage: HashMap<u32, Option<u32>>,
    pub stale_nodes_skipped: usize,
}

/// `retry_limit`: the scan for victims gives up after more than this many *consecutive* nodes
/// whose entry is no longer in the map (None: never gives up).
#[allow(clippy::too_many_arguments)]
pub fn simulate(
    cap: Option<u64>,
    weigher: bool,
    base: &Snap,
    base_sketch: &VerifSketch,
    ops: &[BatchOp],
    hash_of: &dyn Fn(u32) -> u64,
    retry_limit: Option<usize>,
) -> BatchOutcome {
    let eff = |w: u32| -> u64 {
        if weigher {
            w as u64
        } else {
            1
        }
    };
    // --- lineages
    let mut cur: HashMap<u32, Option<u32>> = HashMap::new();
    let mut next_lineage = 1u32;
    let mut residents: Vec<BRes> = Vec::new();
    let mut policy_weight: HashMap<(u32, u32), u64> = HashMap::new();
    for n in &base.probation {
        if let Some(e) = base.entry(n.key) {
            if e.ao.map(|x| x.0) == Some(n.addr) {
                residents.push(BRes { key: e.key, lineage: 0, w: e.accounted.unwrap_or(e.weight) as u64 });
                cur.insert(e.key, Some(0));
                policy_weight.insert((e.key, 0), e.weight as u64);
            }
        }
    }
    #[derive(Clone, Copy)]
    enum Q {
        Hit(u32, u32),
        Miss(u32),
        Upsert(u32, u32),
        Remove(u32, u32),
    }
    let mut reads: Vec<Q> = Vec::new();
    let mut writes: Vec<Q> = Vec::new();
    for b in ops {
        match b.op {
            Op::Insert { k, w, .. } => {
                let l = match cur.get(&k).copied().flatten() {
                    Some(l) => l,
                    None => {
                        let l = next_lineage;
                        next_lineage += 1;
                        cur.insert(k, Some(l));
                        l
                    }
                };
                policy_weight.insert((k, l), eff(w));
                writes.push(Q::Upsert(k, l));
            }
            Op::Get { k } => match (b.hit, cur.get(&k).copied().flatten()) {
                (true, Some(l)) => reads.push(Q::Hit(k, l)),
                _ => reads.push(Q::Miss(k)),
            },
            Op::Invalidate { k } => {
                if b.removed {
                    if let Some(l) = cur.get(&k).copied().flatten() {
                        writes.push(Q::Remove(k, l));
                    }
                    cur.insert(k, None);
                }
            }
            _ => {}
        }
    }
    let final_lineage = cur.clone();
    // the map at sync time: key present iff it has a final lineage (rejections remove it later)
    let mut in_map: HashMap<u32, bool> = final_lineage.iter().map(|(k, l)| (*k, l.is_some())).collect();
    let is_live_node = |r: &BRes, in_map: &HashMap<u32, bool>| -> bool {
        final_lineage.get(&r.key).copied().flatten() == Some(r.lineage) && in_map.get(&r.key).copied().unwrap_or(false)
    };
    // --- reads first
    let mut sketch = base_sketch.deep_clone();
    for q in &reads {
        match *q {
            Q::Hit(k, l) => {
                sketch.increment(hash_of(k));
                if let Some(i) = residents.iter().position(|r| r.key == k && r.lineage == l) {
                    let r = residents.remove(i);
                    residents.push(r);
                }
            }
            Q::Miss(k) => sketch.increment(hash_of(k)),
            _ => {}
        }
    }
    // --- then the writes, in queue order
    let mut out = BatchOutcome::default();
    for q in &writes {
        match *q {
            Q::Upsert(k, l) => {
                let current_w = policy_weight.get(&(k, l)).copied().unwrap_or(1);
                if let Some(i) = residents.iter().position(|r| r.key == k && r.lineage == l) {
                    // already admitted: an update
                    let mut r = residents.remove(i);
                    r.w = current_w;
                    residents.push(r);
                    continue;
                }
                let current = final_lineage.get(&k).copied().flatten() == Some(l) && in_map.get(&k).copied().unwrap_or(false);
                if !current {
                    continue;
                }
                let total: u64 = residents.iter().map(|r| r.w).sum();
                if cap.map(|c| total + current_w <= c).unwrap_or(true) {
                    residents.push(BRes { key: k, lineage: l, w: current_w });
                    continue;
                }
                if cap.map(|c| current_w > c).unwrap_or(false) {
                    in_map.insert(k, false);
                    out.decisions.push((k, false));
                    continue;
                }
                // TinyLFU: victims from the LRU end; nodes whose entry left the map are skipped
                let cand_freq = sketch.frequency(hash_of(k)) as u32;
                let mut vw = 0u64;
                let mut vf = 0u32;
                let mut victims: Vec<usize> = Vec::new();
                let mut skipped: Vec<usize> = Vec::new();
                let mut consecutive = 0usize;
                let mut i = 0usize;
                while vw < current_w && i < residents.len() {
                    if cand_freq < vf {
                        break;
                    }
                    if is_live_node(&residents[i], &in_map) {
                        vw += residents[i].w;
                        vf += sketch.frequency(hash_of(residents[i].key)) as u32;
                        victims.push(i);
                        consecutive = 0;
                    } else {
                        skipped.push(i);
                        out.stale_nodes_skipped += 1;
                        consecutive += 1;
                        if let Some(lim) = retry_limit {
                            if consecutive > lim {
                                break;
                            }
                        }
                    }
                    i += 1;
                }
                let admitted = vw >= current_w && cand_freq > vf;
                out.decisions.push((k, admitted));
                let mut moved: Vec<BRes> = skipped.iter().map(|j| residents[*j].clone()).collect();
                let mut drop_idx: Vec<usize> = skipped.clone();
                if admitted {
                    for j in &victims {
                        in_map.insert(residents[*j].key, false);
                    }
                    drop_idx.extend(victims.iter().copied());
                } else {
                    in_map.insert(k, false);
                }
                drop_idx.sort_unstable();
                drop_idx.dedup();
                for j in drop_idx.into_iter().rev() {
                    residents.remove(j);
                }
                if admitted {
                    residents.push(BRes { key: k, lineage: l, w: current_w });
                }
                // skipped nodes are moved to the back (their Remove op will unlink them)
                residents.append(&mut moved);
            }
            Q::Remove(k, l) => {
                residents.retain(|r| !(r.key == k && r.lineage == l));
            }
            _ => {}
        }
    }
    out.residents = residents;
    out.final_lineage = final_lineage;
    out
}
