//! Small deterministic PRNG (splitmix64 seeded xoshiro256**). No external crates.

#[derive(Clone, Debug)]
pub struct Rng {
    s: [u64; 4],
}

fn splitmix(x: &mut u64) -> u64 {
    *x = x.wrapping_add(0x9E37_79B9_7F4A_7C15);
    let mut z = *x;
    z = (z ^ (z >> 30)).wrapping_mul(0xBF58_476D_1CE4_E5B9);
    z = (z ^ (z >> 27)).wrapping_mul(0x94D0_49BB_1331_11EB);
    z ^ (z >> 31)
}

impl Rng {
    pub fn new(seed: u64) -> Self {
        let mut x = seed ^ 0xD1B5_4A32_D192_ED03;
        let s = [splitmix(&mut x), splitmix(&mut x), splitmix(&mut x), splitmix(&mut x)];
        Rng { s }
    }

    pub fn next_u64(&mut self) -> u64 {
        let result = self.s[1].wrapping_mul(5).rotate_left(7).wrapping_mul(9);
        let t = self.s[1] << 17;
        self.s[2] ^= self.s[0];
        self.s[3] ^= self.s[1];
        self.s[1] ^= self.s[2];
        self.s[0] ^= self.s[3];
        self.s[2] ^= t;
        self.s[3] = self.s[3].rotate_left(45);
        result
    }

    /// Uniform in 0..n (n > 0).
    pub fn below(&mut self, n: u64) -> u64 {
        debug_assert!(n > 0);
        self.next_u64() % n
    }

    pub fn range(&mut self, lo: u64, hi_incl: u64) -> u64 {
        lo + self.below(hi_incl - lo + 1)
    }

    pub fn chance(&mut self, num: u64, den: u64) -> bool {
        self.below(den) < num
    }

    pub fn pick<'a, T>(&mut self, xs: &'a [T]) -> &'a T {
        &xs[self.below(xs.len() as u64) as usize]
    }

    /// Index chosen with the given integer weights.
    pub fn weighted(&mut self, weights: &[u32]) -> usize {
        let total: u64 = weights.iter().map(|w| *w as u64).sum();
        let mut x = self.below(total.max(1));
        for (i, w) in weights.iter().enumerate() {
            if x < *w as u64 {
                return i;
            }
            x -= *w as u64;
        }
        weights.len() - 1
    }

    pub fn fork(&mut self) -> Rng {
        Rng::new(self.next_u64())
    }
}

/// FNV-1a over bytes, for fingerprints of histories / interleavings.
#[derive(Clone, Copy)]
pub struct Fnv(pub u64);

impl Default for Fnv {
    fn default() -> Self {
        Fnv(0xcbf2_9ce4_8422_2325)
    }
}

impl Fnv {
    pub fn write(&mut self, bytes: &[u8]) {
        for b in bytes {
            self.0 ^= *b as u64;
            self.0 = self.0.wrapping_mul(0x0000_0100_0000_01B3);
        }
    }
    pub fn write_u64(&mut self, v: u64) {
        self.write(&v.to_le_bytes());
    }
    pub fn write_str(&mut self, s: &str) {
        self.write(s.as_bytes());
        self.write(&[0xff]);
    }
}
