//! Serialized random scheduler ("baton") over the switch points of the sync cache, and the
//! delay-injecting callback for free-running stress.
//!
//! Baton mode: exactly one registered worker thread runs at any time. At every switch point the
//! running thread asks the scheduler who continues. Lock markers around the deques mutex make a
//! thread that would block on it non-runnable instead of blocking while holding the baton.
//! Deadlock = unfinished threads but none runnable; livelock = step budget exhausted. Both are
//! decided on this logical state, never on wall-clock time.

use crate::rng::{Fnv, Rng};
use mini_moka::verif::Point;
use std::cell::Cell;
use std::sync::{Arc, Condvar, Mutex};

thread_local! {
    static TID: Cell<usize> = const { Cell::new(usize::MAX) };
}

pub fn set_tid(t: usize) {
    TID.with(|c| c.set(t));
}

pub fn tid() -> usize {
    TID.with(|c| c.get())
}

pub const RETRY_BOUND: u32 = 20_000;

#[derive(Clone, Copy, Debug, PartialEq, Eq)]
enum TState {
    NotStarted,
    Ready,
    /// waiting for the deques mutex held by another worker
    Blocked,
    Finished,
}

#[derive(Clone, Copy, Debug, PartialEq, Eq)]
pub enum Strategy {
    /// uniform random choice among runnable threads at every switch point
    Uniform,
    /// keep running the current thread, switch with probability 1/n
    Sticky(u64),
    /// PCT-like: fixed random priorities, `d` random priority change points
    Pct(u32),
    /// like Uniform, but a thread holding the deques mutex is rarely chosen (parks maintenance)
    StarveMaintainer,
    /// a thread that reaches one of the maintenance phase points while holding the deques mutex
    /// is parked there until the others have taken up to `max_park` more steps
    ParkMaintainer(u64),
}

#[derive(Clone, Debug, PartialEq, Eq)]
pub enum Outcome {
    Completed,
    Deadlock(String),
    Livelock(String),
}

struct State {
    n: usize,
    st: Vec<TState>,
    current: usize,
    lock_owner: Option<usize>,
    rng: Rng,
    strategy: Strategy,
    prio: Vec<u64>,
    low: u64,
    change_points: Vec<u64>,
    steps: u64,
    budget: u64,
    trace_hash: Fnv,
    trace: Vec<(u8, Point)>,
    keep_trace: bool,
    outcome: Option<Outcome>,
    /// evidence
    pub switches: u64,
    pub max_backoff_retries: u32,
    pub backoff_events: u64,
    in_sync_depth: Vec<u32>,
    aborted: bool,
    parked_until: Vec<u64>,
    pub parks: u64,
}

pub struct Baton {
    m: Mutex<State>,
    cv: Condvar,
}

#[derive(Clone, Debug, Default)]
pub struct BatonStats {
    pub steps: u64,
    pub switches: u64,
    pub trace_hash: u64,
    pub max_backoff_retries: u32,
    pub backoff_events: u64,
    pub parks: u64,
    pub trace: Vec<(u8, Point)>,
}

impl Baton {
    pub fn new(n: usize, seed: u64, strategy: Strategy, budget: u64, keep_trace: bool) -> Arc<Baton> {
        let mut rng = Rng::new(seed);
        let prio: Vec<u64> = (0..n).map(|_| (rng.next_u64() >> 1) | (1 << 32)).collect();
        let mut change_points = Vec::new();
        if let Strategy::Pct(d) = strategy {
            for _ in 0..d {
                change_points.push(rng.below(budget.min(400)));
            }
        }
        Arc::new(Baton {
            m: Mutex::new(State {
                n,
                st: vec![TState::NotStarted; n],
                current: usize::MAX,
                lock_owner: None,
                rng,
                strategy,
                prio,
                low: 1 << 30,
                change_points,
                steps: 0,
                budget,
                trace_hash: Fnv::default(),
                trace: Vec::new(),
                keep_trace,
                outcome: None,
                switches: 0,
                max_backoff_retries: 0,
                backoff_events: 0,
                in_sync_depth: vec![0; n],
                aborted: false,
                parked_until: vec![0; n],
                parks: 0,
            }),
            cv: Condvar::new(),
        })
    }

    fn pick(s: &mut State, me: Option<usize>) -> Option<usize> {
        let runnable: Vec<usize> = (0..s.n).filter(|t| s.st[*t] == TState::Ready).collect();
        if runnable.is_empty() {
            return None;
        }
        let choice = match s.strategy {
            Strategy::Uniform => runnable[s.rng.below(runnable.len() as u64) as usize],
            Strategy::Sticky(k) => match me {
                Some(m) if s.st[m] == TState::Ready && s.rng.below(k) != 0 => m,
                _ => runnable[s.rng.below(runnable.len() as u64) as usize],
            },
            Strategy::Pct(_) => {
                if s.change_points.contains(&s.steps) {
                    if let Some(m) = me {
                        // demote the running thread below everybody else
                        s.prio[m] = s.low;
                        s.low -= 1;
                    }
                }
                *runnable.iter().max_by_key(|t| s.prio[**t]).unwrap()
            }
            Strategy::ParkMaintainer(_) => {
                let steps = s.steps;
                let awake: Vec<usize> = runnable.iter().copied().filter(|t| s.parked_until[*t] <= steps).collect();
                if awake.is_empty() {
                    // everybody runnable is parked: wake the one that was parked first
                    *runnable.iter().min_by_key(|t| s.parked_until[**t]).unwrap()
                } else {
                    awake[s.rng.below(awake.len() as u64) as usize]
                }
            }
            Strategy::StarveMaintainer => {
                let others: Vec<usize> = runnable.iter().copied().filter(|t| Some(*t) != s.lock_owner).collect();
                if !others.is_empty() && s.rng.below(64) != 0 {
                    others[s.rng.below(others.len() as u64) as usize]
                } else {
                    runnable[s.rng.below(runnable.len() as u64) as usize]
                }
            }
        };
        Some(choice)
    }

    /// Called by a worker before its first operation: waits for the baton.
    pub fn start(&self, me: usize) {
        set_tid(me);
        let mut s = self.m.lock().unwrap();
        s.st[me] = TState::Ready;
        // the last thread to arrive opens the race
        if s.st.iter().all(|x| *x != TState::NotStarted) && s.current == usize::MAX {
            let c = Self::pick(&mut s, None).unwrap();
            s.current = c;
            self.cv.notify_all();
        }
        while s.current != me && !s.aborted {
            s = self.cv.wait(s).unwrap();
        }
    }

    /// Called by a worker after its last operation.
    pub fn finish(&self, me: usize) {
        let mut s = self.m.lock().unwrap();
        s.st[me] = TState::Finished;
        if s.lock_owner == Some(me) {
            s.lock_owner = None;
        }
        self.hand_over(&mut s, None);
        set_tid(usize::MAX);
    }

    fn hand_over(&self, s: &mut State, me: Option<usize>) {
        match Self::pick(s, me) {
            Some(c) => {
                if Some(c) != me {
                    s.switches += 1;
                }
                s.current = c;
            }
            None => {
                let unfinished: Vec<usize> = (0..s.n).filter(|t| s.st[*t] != TState::Finished).collect();
                if unfinished.is_empty() {
                    s.outcome.get_or_insert(Outcome::Completed);
                    s.current = usize::MAX - 1;
                } else {
                    let msg = format!(
                        "no runnable thread: threads {:?} are blocked on the deques mutex held by {:?}",
                        unfinished, s.lock_owner
                    );
                    s.outcome.get_or_insert(Outcome::Deadlock(msg));
                    s.aborted = true;
                }
            }
        }
        self.cv.notify_all();
    }

    /// The switch point callback.
    pub fn at(&self, p: Point) {
        self.step(Some(p))
    }

    /// A switch point of the harness itself: between two operations of a thread (the first has
    /// returned, so whatever it queued is visible; the second has not touched anything yet). The
    /// library has no point there: its last one in a write is *before* the operation is sent.
    pub fn between_ops(&self) {
        self.step(None)
    }

    fn step(&self, p: Option<Point>) {
        let me = tid();
        if me == usize::MAX {
            return; // not a scheduled worker (the harness' own thread at quiescence)
        }
        let mut s = self.m.lock().unwrap();
        if s.aborted {
            return; // run abandoned: let threads run freely to their end
        }
        s.steps += 1;
        s.trace_hash.write(&[me as u8]);
        match p {
            Some(p) => s.trace_hash.write_str(&format!("{:?}", p)),
            None => s.trace_hash.write_str("-"),
        }
        if let (true, Some(p)) = (s.keep_trace && s.trace.len() < 100_000, p) {
            s.trace.push((me as u8, p));
        }
        let p = match p {
            Some(p) => p,
            // treated like any point that changes no scheduler state
            None => Point::WriteBeforeSend,
        };
        match p {
            Point::SyncBeforeLock => {
                s.in_sync_depth[me] += 1;
                if let Some(o) = s.lock_owner {
                    if o != me {
                        s.st[me] = TState::Blocked;
                    }
                } else {
                    s.lock_owner = Some(me); // reserved: nobody else can take it before we do
                }
            }
            Point::SyncUnlocked => {
                s.in_sync_depth[me] = s.in_sync_depth[me].saturating_sub(1);
                if s.lock_owner == Some(me) {
                    s.lock_owner = None;
                }
                for t in 0..s.n {
                    if s.st[t] == TState::Blocked {
                        s.st[t] = TState::Ready;
                    }
                }
            }
            Point::SyncAfterReads | Point::SyncAfterWrites | Point::SyncAfterExpire | Point::SyncAfterEvict | Point::TrySyncBeforeRelease => {
                if let Strategy::ParkMaintainer(max_park) = s.strategy {
                    if s.rng.below(4) == 0 {
                        let d = s.rng.below(max_park.max(1));
                        s.parked_until[me] = s.steps + d;
                        s.parks += 1;
                    }
                }
            }
            Point::WriteBackoff(r) => {
                s.backoff_events += 1;
                if r > s.max_backoff_retries {
                    s.max_backoff_retries = r;
                }
                // A parked maintainer wakes up after at most 4000 steps of the others (about 2000
                // retries of a spinning writer). Ten times that without getting the op queued
                // means nobody drains the queue any more.
                if r > RETRY_BOUND {
                    let msg = format!("thread {} retried one write op {} times at the back-off point: the write queue is never drained", me, r);
                    s.outcome.get_or_insert(Outcome::Livelock(msg));
                    s.aborted = true;
                    self.cv.notify_all();
                    return;
                }
            }
            _ => {}
        }
        if s.steps > s.budget {
            let msg = format!("step budget {} exhausted at {:?} of thread {}", s.budget, p, me);
            s.outcome.get_or_insert(Outcome::Livelock(msg));
            s.aborted = true;
            self.cv.notify_all();
            return;
        }
        loop {
            self.hand_over(&mut s, Some(me));
            if s.aborted {
                return;
            }
            while s.current != me && !s.aborted {
                s = self.cv.wait(s).unwrap();
            }
            if s.aborted {
                return;
            }
            // we have the baton again; if we were blocked on the mutex, it must be free now
            if s.st[me] == TState::Blocked {
                continue;
            }
            if p == Point::SyncBeforeLock && s.lock_owner != Some(me) {
                if s.lock_owner.is_none() {
                    s.lock_owner = Some(me);
                } else {
                    s.st[me] = TState::Blocked;
                    continue;
                }
            }
            break;
        }
    }

    pub fn outcome(&self) -> Outcome {
        let s = self.m.lock().unwrap();
        s.outcome.clone().unwrap_or(Outcome::Completed)
    }

    pub fn stats(&self) -> BatonStats {
        let s = self.m.lock().unwrap();
        BatonStats {
            steps: s.steps,
            switches: s.switches,
            trace_hash: s.trace_hash.0,
            max_backoff_retries: s.max_backoff_retries,
            backoff_events: s.backoff_events,
            parks: s.parks,
            trace: s.trace.clone(),
        }
    }
}

/// Installs a baton as the process-global switch hook.
pub fn install_baton(b: &Arc<Baton>) {
    let b2 = Arc::clone(b);
    mini_moka::verif::set_switch_hook(Some(Arc::new(move |p| b2.at(p))));
}

pub fn uninstall() {
    mini_moka::verif::set_switch_hook(None);
}
