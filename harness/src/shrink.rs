//! Delta debugging of a failing history down to a 1-minimal one (w.r.t. removing operations).

use crate::hist::{History, Op};
use crate::monitor::{run_history, RunOpts};

/// Does the history still produce a violation with this signature for this property?
pub fn still_fails(h: &History, prop: &str, sig: &str, known: &[String]) -> bool {
    let opts = RunOpts { known: known.to_vec(), stop_at_first: true, drop_at: None, light: false, prop: prop.to_string() };
    let (res, _) = run_history(h, opts);
    res.violations.iter().any(|v| v.sig == sig && v.props.iter().any(|p| *p == prop))
}

pub fn shrink(h: &History, prop: &str, sig: &str, known: &[String], budget: usize) -> History {
    let mut cur = h.clone();
    let mut tries = 0usize;
    if !still_fails(&cur, prop, sig, known) {
        return cur; // not reproducible from the recorded ops alone (e.g. drop_at): keep as is
    }
    let mut chunk = (cur.ops.len() / 2).max(1);
    loop {
        let mut progress = false;
        let mut i = 0;
        while i < cur.ops.len() && tries < budget {
            let end = (i + chunk).min(cur.ops.len());
            let mut cand = cur.clone();
            cand.ops.drain(i..end);
            tries += 1;
            if still_fails(&cand, prop, sig, known) {
                cur = cand;
                progress = true;
            } else {
                i = end;
            }
        }
        if tries >= budget {
            break;
        }
        if chunk == 1 && !progress {
            break;
        }
        if !progress {
            chunk = (chunk / 2).max(1);
        }
    }
    // simplify what is left: shrink advances and weights where the failure persists
    for i in 0..cur.ops.len() {
        if tries >= budget {
            break;
        }
        if let Op::Advance { ns } = cur.ops[i] {
            for cand_ns in [1u64, ns / 2] {
                if cand_ns < ns {
                    let mut cand = cur.clone();
                    cand.ops[i] = Op::Advance { ns: cand_ns };
                    tries += 1;
                    if still_fails(&cand, prop, sig, known) {
                        cur = cand;
                        break;
                    }
                }
            }
        }
    }
    cur
}
