//! Seeded generators for configurations and (online, truth-aware) operation sequences.

use crate::hist::{Config, Density, Kind, Op, Pred};
use crate::rng::Rng;
use crate::truth::Truth;
use crate::types::HashMode;
use std::collections::VecDeque;

pub const MS: u64 = 1_000_000;
pub const SEC: u64 = 1_000_000_000;
pub const YEAR: u64 = 365 * 24 * 3600 * SEC;
pub const KILO_YEAR: u64 = 1000 * 365 * 24 * 3600; // seconds

#[derive(Clone, Copy, Debug, PartialEq, Eq)]
pub enum Profile {
    /// C01: everything, arbitrary sync placement
    General,
    /// C03: fill -> expire / invalidate -> refill; ops left queued
    Loss,
    /// C04: weigher, zero / oversized weights, growing updates
    Capacity,
    /// C05
    Ttl,
    /// C06
    Tti,
    /// C07
    Invalidate,
    /// C08 / C11: everything incl. extreme weights, drops mid-history
    Safety,
    /// C10
    Counters,
    /// C12: exact mode, tight capacities, recency interactions
    Lru,
    /// C13: exact mode, reads concentrated on candidates
    Admission,
    /// C14 (cache-level clause)
    SketchApi,
    /// C16 (sequential clause)
    Iter,
    /// C15 base histories: tti + tight capacities
    Pure,
    /// C05 / C06: more expired entries pending than one maintenance batch purges
    Bulk,
    /// C12 / C13 / C03 on the concurrent cache with un-synced batches: tight capacities, the clock
    /// beyond the periodical-sync interval (no maintenance nested in the calls), explicit sync()
    /// every few operations
    Batch,
    /// C08 and the lookup properties under injected faults: a callback of the caller (V::clone,
    /// the weigher, the predicate of invalidate_entries_if) panics at a chosen call
    Fault,
}

impl Profile {
    pub fn parse(s: &str) -> Option<Profile> {
        Some(match s {
            "general" => Profile::General,
            "loss" => Profile::Loss,
            "capacity" => Profile::Capacity,
            "ttl" => Profile::Ttl,
            "tti" => Profile::Tti,
            "invalidate" => Profile::Invalidate,
            "safety" => Profile::Safety,
            "counters" => Profile::Counters,
            "lru" => Profile::Lru,
            "admission" => Profile::Admission,
            "sketchapi" => Profile::SketchApi,
            "iter" => Profile::Iter,
            "pure" => Profile::Pure,
            "bulk" => Profile::Bulk,
            "batch" => Profile::Batch,
            "fault" => Profile::Fault,
            _ => return None,
        })
    }
}

fn pick_duration(rng: &mut Rng) -> u64 {
    *rng.pick(&[0u64, 1, 2, 10, 1000, MS, 500 * MS, SEC, 3 * SEC, 1_000_000 * SEC])
}

pub fn gen_config(rng: &mut Rng, profile: Profile) -> Config {
    use Profile::*;
    let kind = match profile {
        _ => {
            if rng.chance(1, 2) {
                Kind::Unsync
            } else {
                Kind::Sync
            }
        }
    };
    if profile == Batch {
        // "wide" configurations hold enough residents for long victim scans
        let wide = rng.chance(1, 4);
        let keys = if wide { rng.range(18, 32) as u32 } else { rng.range(4, 14) as u32 };
        let expiry = rng.chance(1, 5);
        return Config {
            kind: Kind::Sync,
            cap: Some(if wide { rng.range(12, 24) } else { *rng.pick(&[1u64, 2, 3, 3, 4, 4, 5, 6, 8, 10]) }),
            weigher: rng.chance(2, 3),
            ttl: if expiry && rng.chance(1, 2) { Some(pick_duration(rng)) } else { None },
            tti: if expiry && rng.chance(1, 2) { Some(pick_duration(rng)) } else { None },
            hasher: match rng.below(10) {
                0..=5 => HashMode::Mix(rng.below(1000)),
                6 | 7 => HashMode::Identity,
                _ => HashMode::Collide2,
            },
            density: Density::Sparse,
            keys,
            initial_capacity: None,
        };
    }
    if profile == Bulk {
        let d = *rng.pick(&[1u64, 1000, SEC]);
        let (ttl, tti) = match rng.below(3) {
            0 => (Some(d), None),
            1 => (None, Some(d)),
            _ => (Some(d), Some(d * 2)),
        };
        let keys = *rng.pick(&[120u32, 150, 250, 600]);
        if rng.chance(1, 3) {
            // size-aware variant: every entry weighs 10, the cache fills up to (almost) its
            // capacity, so the size estimate the popularity table is derived from keeps growing
            return Config {
                kind,
                cap: Some(*rng.pick(&[keys as u64 * 10, keys as u64 * 8, 10_000])),
                weigher: true,
                ttl: None,
                tti: None,
                hasher: HashMode::Mix(rng.below(1000)),
                density: if rng.chance(1, 2) { Density::Every } else { Density::Sparse },
                keys,
                initial_capacity: None,
            };
        }
        return Config {
            kind,
            // a capacity of 1.5 x keys enables the popularity table once half of it is filled
            cap: match rng.below(4) { 0 => None, 1 => Some(100_000), _ => Some(keys as u64 + keys as u64 / 2) },
            weigher: false,
            ttl,
            tti,
            hasher: HashMode::Mix(rng.below(1000)),
            density: if rng.chance(1, 2) { Density::Every } else { Density::Sparse },
            keys,
            // (an initial capacity must not show: here the popularity table grows beyond its minimum size)
            initial_capacity: if rng.chance(1, 3) { Some(rng.below(200) as usize) } else { None },
        };
    }
    let keys = match profile {
        Lru | Admission | Capacity => rng.range(3, 10) as u32,
        _ => *rng.pick(&[2u32, 3, 4, 4, 5, 6, 8, 12]),
    };
    let cap: Option<u64> = match profile {
        Lru | Admission | Capacity => Some(*rng.pick(&[1u64, 2, 2, 3, 3, 4, 4, 5, 6, 8, 16])),
        Pure => Some(*rng.pick(&[1u64, 2, 3, 4, 6])),
        Loss => {
            if rng.chance(2, 5) {
                None
            } else if rng.chance(1, 3) {
                Some(1000)
            } else {
                Some(*rng.pick(&[0u64, 1, 2, 3, 4, 6, 8]))
            }
        }
        _ => {
            if rng.chance(1, 4) {
                None
            } else {
                Some(*rng.pick(&[0u64, 1, 2, 3, 4, 6, 8, 16]))
            }
        }
    };
    let giant = matches!(profile, Capacity | Safety | Admission | Lru) && rng.chance(1, 14);
    let cap = if giant { Some(*rng.pick(&[3u64 << 32, 5u64 << 31, (1u64 << 33) + 1])) } else { cap };
    let weigher = match profile {
        _ if giant => true,
        Capacity => rng.chance(4, 5),
        Fault => rng.chance(3, 4),
        _ => rng.chance(1, 2),
    };
    let (ttl, tti) = match profile {
        Ttl => (Some(pick_duration(rng)), if rng.chance(1, 3) { Some(pick_duration(rng)) } else { None }),
        Tti => (if rng.chance(1, 3) { Some(pick_duration(rng)) } else { None }, Some(pick_duration(rng))),
        Pure => (if rng.chance(1, 2) { Some(pick_duration(rng)) } else { None }, if rng.chance(1, 2) { Some(pick_duration(rng)) } else { None }),
        Lru | Admission => {
            if rng.chance(1, 4) {
                (if rng.chance(1, 2) { Some(pick_duration(rng)) } else { None }, if rng.chance(1, 2) { Some(pick_duration(rng)) } else { None })
            } else {
                (None, None)
            }
        }
        _ => (
            if rng.chance(2, 5) { Some(pick_duration(rng)) } else { None },
            if rng.chance(2, 5) { Some(pick_duration(rng)) } else { None },
        ),
    };
    let hasher = match rng.below(10) {
        0..=5 => HashMode::Mix(rng.below(1000)),
        6 | 7 => HashMode::Identity,
        _ => HashMode::Collide2,
    };
    let density = match profile {
        Lru | Admission => Density::Every,
        // C15: half of the pairs on the concurrent cache leave operations un-synced (an observation of
        // an entry whose write is still pending must not change its fate)
        Pure => {
            if rng.chance(1, 2) {
                Density::Every
            } else {
                Density::Sparse
            }
        }
        _ => {
            if rng.chance(2, 5) {
                Density::Every
            } else {
                Density::Sparse
            }
        }
    };
    Config {
        kind,
        cap,
        weigher,
        ttl,
        tti,
        hasher,
        density,
        keys,
        initial_capacity: if rng.chance(1, 8) { Some(rng.below(50) as usize) } else { None },
    }
}

pub struct Gen {
    pub rng: Rng,
    pub profile: Profile,
    script: VecDeque<Op>,
    next_vid: u64,
    /// fault profile: also make K::eq / K::hash panic
    pub keyfaults: bool,
}

impl Gen {
    pub fn new(rng: Rng, profile: Profile) -> Gen {
        Gen { rng, profile, script: VecDeque::new(), next_vid: 1, keyfaults: false }
    }

    fn vid(&mut self) -> u64 {
        let v = self.next_vid;
        self.next_vid += 1;
        v
    }

    fn weight(&mut self, cfg: &Config) -> u32 {
        if !cfg.weigher {
            return 1;
        }
        if cfg.cap.map(|c| c > u32::MAX as u64).unwrap_or(false) {
            // giant capacity: a few entries of gigabytes each fill it; the victims of one admission
            // together weigh more than u32::MAX
            return *self.rng.pick(&[1u32 << 30, 1 << 31, (1 << 31) + 7, u32::MAX, u32::MAX - 1, 3 << 29, 1, 0]);
        }
        let cap = cfg.cap.unwrap_or(4).min(u32::MAX as u64 - 1) as u32;
        match self.rng.below(20) {
            0 | 1 => 0,
            2..=9 => 1,
            10..=13 => 2,
            14 | 15 => 3,
            16 => cap,
            17 => cap.saturating_add(1),
            18 => cap / 2,
            _ => {
                // Extreme weights. u32::MAX only on unbounded caches: on a bounded one a grown
                // entry of that weight makes the cache size its popularity table at 8 GiB
                // (allocation limits are out of scope, see DESIGN.md section 10).
                if cfg.cap.is_none() && (self.profile == Profile::Safety || self.profile == Profile::Capacity) {
                    u32::MAX
                } else if self.profile == Profile::Safety || self.profile == Profile::Capacity {
                    cap.saturating_mul(2).saturating_add(1).min(1000)
                } else {
                    1
                }
            }
        }
    }

    fn advance(&mut self, cfg: &Config, truth: &Truth, now: u64) -> Op {
        let r = self.rng.below(100);
        let ns = if r < 45 {
            match truth.next_deadline(now) {
                Some(d) => {
                    let delta = d - now;
                    match self.rng.below(4) {
                        0 => delta.saturating_sub(1),
                        1 | 2 => delta,
                        _ => delta + 1,
                    }
                }
                None => self.rng.below(20),
            }
        } else if r < 65 {
            self.rng.below(20)
        } else if r < 80 {
            *self.rng.pick(&[499 * MS, 500 * MS, 501 * MS, 500 * MS - 1, 500 * MS + 1])
        } else {
            let m = cfg.ttl.unwrap_or(0).max(cfg.tti.unwrap_or(0)).min(10 * SEC).max(10);
            self.rng.below(2 * m)
        };
        Op::Advance { ns }
    }

    /// The next operation, chosen with knowledge of the ground truth (so that deadlines,
    /// resident / non-resident keys and re-insertions can be targeted).
    pub fn next_op(&mut self, cfg: &Config, truth: &Truth, now: u64) -> Op {
        if let Some(op) = self.script.pop_front() {
            return op;
        }
        use Profile::*;
        if self.profile == Bulk {
            self.make_bulk_script(cfg, truth, now);
            if let Some(op) = self.script.pop_front() {
                return op;
            }
        }
        if self.profile == Batch && self.next_vid == 1 && now < 501 * MS {
            // leave the window in which every call runs the maintenance itself
            return Op::Advance { ns: 501 * MS };
        }
        let nkeys = cfg.keys;
        let sync_sparse = cfg.kind == Kind::Sync && cfg.density == Density::Sparse;
        let unsync = cfg.kind == Kind::Unsync;
        // weights: insert, get, contains, iter, invalidate, invalidate_all, invalidate_if, advance, sync, script
        let mut w: [u32; 10] = match self.profile {
            General => [28, 24, 8, 6, 7, 3, 4, 10, 6, 4],
            Loss => [30, 20, 8, 6, 8, 4, 4, 10, 6, 8],
            Capacity => [40, 15, 5, 4, 6, 2, 3, 6, 6, 8],
            Ttl => [26, 20, 10, 8, 4, 2, 2, 22, 5, 4],
            Tti => [22, 24, 10, 8, 4, 2, 2, 22, 5, 4],
            Invalidate => [26, 20, 10, 6, 12, 7, 7, 7, 6, 8],
            Safety => [30, 20, 6, 5, 8, 4, 4, 10, 6, 8],
            Counters => [30, 15, 5, 4, 10, 5, 6, 12, 6, 6],
            Lru => [30, 30, 4, 3, 4, 1, 1, 3, 0, 14],
            Admission => [25, 30, 3, 2, 3, 1, 1, 3, 0, 22],
            SketchApi => [22, 30, 8, 6, 6, 3, 3, 6, 6, 4],
            Iter => [28, 16, 6, 18, 6, 3, 3, 10, 5, 4],
            Pure => [28, 26, 0, 0, 5, 2, 2, 12, 5, 10],
            Bulk => [10, 40, 25, 5, 2, 0, 0, 10, 5, 0],
            Batch => [34, 22, 2, 1, 12, 1, 0, 1, 9, 18],
            Fault => [30, 22, 6, 5, 6, 3, 6, 10, 5, 7],
        };
        if self.profile == Fault && self.rng.chance(1, 9) {
            // arm a fault, then an operation that is likely to reach the callback
            let resident: Vec<u32> = truth.visible_candidates(now);
            let mut sites: Vec<u8> = Vec::new();
            if cfg.kind == Kind::Sync {
                sites.push(crate::types::SITE_CLONE);
            }
            if cfg.weigher {
                sites.push(crate::types::SITE_WEIGHER);
                sites.push(crate::types::SITE_WEIGHER);
            }
            if unsync {
                sites.push(crate::types::SITE_PRED);
            }
            // (on the concurrent cache a panic of K::hash / K::eq inside a maintenance run poisons the std Mutex
            // around the deques: every later run then panics with "lock poisoned"; see DESIGN.md section 10)
            if self.keyfaults && unsync {
                sites.push(crate::types::SITE_EQ);
                sites.push(crate::types::SITE_HASH);
            }
            if !sites.is_empty() {
                let site = *self.rng.pick(&sites);
                let nth = *self.rng.pick(&[0u32, 0, 0, 1, 1, 2, 3]);
                let k = self.rng.below(nkeys as u64) as u32;
                let kr = if resident.is_empty() { k } else { *self.rng.pick(&resident) };
                let follow = match site {
                    crate::types::SITE_CLONE => {
                        if self.rng.chance(1, 2) {
                            Op::Get { k: kr }
                        } else {
                            let wt = self.weight(cfg);
                            Op::Insert { k: if self.rng.chance(2, 3) { kr } else { k }, vid: self.vid(), w: wt }
                        }
                    }
                    crate::types::SITE_WEIGHER => {
                        let wt = self.weight(cfg);
                        Op::Insert { k: if self.rng.chance(1, 3) { kr } else { k }, vid: self.vid(), w: wt }
                    }
                    crate::types::SITE_EQ | crate::types::SITE_HASH => {
                        let wt = self.weight(cfg);
                        match self.rng.below(5) {
                            0 | 1 => Op::Insert { k: if self.rng.chance(1, 2) { kr } else { k }, vid: self.vid(), w: wt },
                            2 => Op::Get { k: kr },
                            3 => Op::Invalidate { k: kr },
                            _ => Op::Advance { ns: cfg.ttl.or(cfg.tti).unwrap_or(1) },
                        }
                    }
                    _ => Op::InvalidateIf { p: *self.rng.pick(&[Pred::All, Pred::KeyEven, Pred::ValEven, Pred::KeyLt(nkeys / 2 + 1)]) },
                };
                self.script.push_back(follow);
                return Op::ArmFault { site, nth };
            }
        }
        if !unsync {
            w[6] = 0;
        }
        if !sync_sparse {
            w[8] = 0;
        }
        if cfg.ttl.is_none() && cfg.tti.is_none() {
            w[7] = w[7] / 3 + 1;
        }
        let k = self.rng.below(nkeys as u64) as u32;
        match self.rng.weighted(&w) {
            0 => {
                let wt = self.weight(cfg);
                Op::Insert { k, vid: self.vid(), w: wt }
            }
            1 => Op::Get { k },
            2 => Op::Contains { k },
            3 => {
                // sometimes hold the iterator across a clock advance that reaches a deadline
                if (cfg.ttl.is_some() || cfg.tti.is_some()) && self.rng.chance(1, 3) {
                    let ns = match truth.next_deadline(now) {
                        Some(d) if self.rng.chance(3, 4) => (d - now) + self.rng.below(2),
                        _ => self.rng.below(20),
                    };
                    Op::IterAdvance { ns }
                } else {
                    Op::Iter
                }
            }
            4 => Op::Invalidate { k },
            5 => Op::InvalidateAll,
            6 => {
                let p = match self.rng.below(8) {
                    0 => Pred::All,
                    1 => Pred::Nothing,
                    2 => Pred::KeyLt(self.rng.below(nkeys as u64 + 1) as u32),
                    3 => Pred::KeyEven,
                    4 => Pred::KeyEq(k),
                    5 => Pred::ValEven,
                    6 => Pred::WeightGe(self.rng.below(4) as u32),
                    _ => Pred::KeyLt(nkeys / 2),
                };
                Op::InvalidateIf { p }
            }
            7 => self.advance(cfg, truth, now),
            8 => Op::Sync,
            _ => {
                self.make_script(cfg, truth, now);
                self.script.pop_front().unwrap_or(Op::Get { k })
            }
        }
    }

    /// Bulk: insert all keys in one go, let them all pass their deadline without any operation
    /// in between, then probe keys from everywhere in the insertion order.
    fn make_bulk_script(&mut self, cfg: &Config, truth: &Truth, now: u64) {
        if !truth.keys.is_empty() {
            return; // already filled: continue with random probes
        }
        let n = cfg.keys;
        if cfg.weigher {
            // fill up with recorded lookups and maintenance runs in between
            for k in 0..n {
                let vid = self.vid();
                self.script.push_back(Op::Insert { k, vid, w: 10 });
                if k % 7 == 3 {
                    self.script.push_back(Op::Get { k: self.rng.below(k as u64 + 1) as u32 });
                }
                if k % 50 == 49 && cfg.kind == Kind::Sync {
                    self.script.push_back(Op::Sync);
                }
            }
            for _ in 0..10 {
                self.script.push_back(Op::Get { k: self.rng.below(n as u64) as u32 });
            }
            self.script.push_back(Op::Sync);
            if self.rng.chance(1, 2) {
                // one entry grows to the whole capacity: far more than one eviction batch has to go,
                // and the maintenance runs that follow find no queued writes
                let vid = self.vid();
                let w = cfg.cap.unwrap_or(1000).min(u32::MAX as u64 / 2) as u32;
                self.script.push_back(Op::Insert { k: self.rng.below(n as u64) as u32, vid, w });
                self.script.push_back(Op::Sync);
                self.script.push_back(Op::Get { k: 0 });
                self.script.push_back(Op::Sync);
                self.script.push_back(Op::Contains { k: 1 });
                self.script.push_back(Op::Sync);
            }
            return;
        }
        for k in 0..n {
            let vid = self.vid();
            self.script.push_back(Op::Insert { k, vid, w: 1 });
        }
        if self.rng.chance(1, 3) {
            // invalidate_all over more admitted entries than one maintenance run purges (100 / 500), then
            // maintenance runs, probes from both ends and a few re-insertions
            if cfg.kind == Kind::Sync {
                self.script.push_back(Op::Sync);
            }
            self.script.push_back(Op::Advance { ns: 1 + self.rng.below(3) });
            self.script.push_back(Op::InvalidateAll);
            for round in 0..self.rng.range(1, 4) {
                if cfg.kind == Kind::Sync {
                    self.script.push_back(Op::Sync);
                }
                for _ in 0..3 {
                    let k = if self.rng.chance(1, 2) { n - 1 - self.rng.below(20.min(n as u64)) as u32 } else { self.rng.below(n as u64) as u32 };
                    self.script.push_back(match self.rng.below(3) {
                        0 => Op::Get { k },
                        1 => Op::Contains { k },
                        _ => Op::Iter,
                    });
                }
                if round == 1 {
                    let vid = self.vid();
                    self.script.push_back(Op::Insert { k: self.rng.below(n as u64) as u32, vid, w: 1 });
                }
            }
            return;
        }
        if self.rng.chance(1, 3) {
            // refresh a few so that deadlines are staggered
            for _ in 0..5 {
                let k = self.rng.below(n as u64) as u32;
                self.script.push_back(Op::Get { k });
            }
        }
        let d = cfg.ttl.unwrap_or(u64::MAX).min(cfg.tti.unwrap_or(u64::MAX));
        let _ = now;
        self.script.push_back(Op::Advance { ns: match self.rng.below(3) { 0 => d, 1 => d + 1, _ => d.saturating_mul(3) } });
        for _ in 0..self.rng.range(4, 12) {
            // from the newest end as well as from the oldest
            let k = if self.rng.chance(1, 2) { n - 1 - self.rng.below(20.min(n as u64)) as u32 } else { self.rng.below(n as u64) as u32 };
            self.script.push_back(match self.rng.below(3) {
                0 => Op::Get { k },
                1 => Op::Contains { k },
                _ => Op::Iter,
            });
        }
    }

    /// Multi-step scenarios the properties name explicitly.
    fn make_script(&mut self, cfg: &Config, truth: &Truth, now: u64) {
        let nkeys = cfg.keys;
        let k = self.rng.below(nkeys as u64) as u32;
        let resident: Vec<u32> = truth.visible_candidates(now);
        let non_resident: Vec<u32> = (0..nkeys).filter(|x| !resident.contains(x)).collect();
        let storm_ok = cfg.kind == Kind::Sync && cfg.density == Density::Sparse && cfg.tti.map(|t| t > 501 * MS).unwrap_or(false);
        let choice = if storm_ok && matches!(self.profile, Profile::Loss | Profile::Tti | Profile::General | Profile::Invalidate) && self.rng.chance(1, 5) {
            97
        } else if self.profile == Profile::Batch && self.rng.chance(1, 4) {
            99
        } else if self.profile == Profile::Pure && self.rng.chance(1, 3) {
            98
        } else {
            self.rng.below(8)
        };
        match choice {
            // read burst: beyond the periodical-sync window, more gets than the read log holds and no
            // write in between; then a get of another key, an explicit sync() and a probe of that key
            // at a reading that only the last get keeps it alive for (C03: the idle-timer extension of a
            // get counts once maintenance has run; C06: and not a tick longer)
            97 => {
                let a = if resident.is_empty() { k } else { *self.rng.pick(&resident) };
                let b = (a + 1 + self.rng.below(nkeys.max(2) as u64 - 1) as u32) % nkeys.max(2);
                let tti = cfg.tti.unwrap_or(SEC);
                let v1 = self.vid();
                let v2 = self.vid();
                self.script.push_back(Op::Insert { k: a, vid: v1, w: 1 });
                self.script.push_back(Op::Insert { k: b, vid: v2, w: 1 });
                self.script.push_back(Op::Sync);
                self.script.push_back(Op::Advance { ns: 501 * MS + self.rng.below(1000) });
                self.script.push_back(Op::Gets { k: a, n: self.rng.range(380, 460) as u32 });
                self.script.push_back(Op::Get { k: b });
                if self.rng.chance(3, 4) {
                    self.script.push_back(Op::Sync);
                }
                // the inserts' own idle deadline: tti after them, i.e. (tti - what was advanced) from now
                let left = tti.saturating_sub(501 * MS + 1000);
                self.script.push_back(Op::Advance { ns: match self.rng.below(3) { 0 => left, 1 => left + 1000, _ => tti - 1 } });
                self.script.push_back(if self.rng.chance(1, 2) { Op::Get { k: b } } else { Op::Contains { k: b } });
                self.script.push_back(Op::Get { k: a });
            }
            // pending work: an update grows a resident (on the single-threaded cache the size excess
            // stays until a later call removes it), the clock moves to the next deadline, then one
            // operation has to do both the purge and the eviction. An observation slipped in before
            // it must not change which entries survive.
            98 => {
                // the entry whose time-to-live ends first is read (so it is not the eviction victim)
                let oldest = resident.iter().filter_map(|r| truth.cur(*r).map(|l| (l.t_mod, *r))).min();
                let target = match (cfg.ttl, oldest) {
                    (Some(ttl), Some((t_mod, e))) if t_mod.saturating_add(ttl) > now => Some((t_mod.saturating_add(ttl), e)),
                    _ => None,
                };
                match target {
                    Some((_, e)) if self.rng.chance(3, 4) => self.script.push_back(Op::Get { k: e }),
                    _ => {
                        if let (Some(r), true) = (resident.first(), self.rng.chance(1, 2)) {
                            self.script.push_back(Op::Get { k: *r });
                        }
                    }
                }
                let others: Vec<u32> = resident.iter().copied().filter(|r| Some(*r) != target.map(|t| t.1)).collect();
                let c = if others.is_empty() { k } else { *self.rng.pick(&others) };
                let cap = cfg.cap.unwrap_or(4).min(1000);
                let w = if cfg.weigher { self.rng.range(2, cap.max(2)) as u32 } else { 1 };
                let vid = self.vid();
                self.script.push_back(Op::Insert { k: c, vid, w });
                let deadline = match target {
                    Some((d, _)) if self.rng.chance(3, 4) => Some(d),
                    _ => truth.next_deadline(now),
                };
                if let (Some(d), true) = (deadline, self.rng.chance(4, 5)) {
                    self.script.push_back(Op::Advance { ns: d - now });
                }
                let o = self.rng.below(nkeys as u64 + 2) as u32;
                let vid2 = self.vid();
                let last = match self.rng.below(6) {
                    0 | 1 => Op::Invalidate { k: o },
                    2 => Op::Get { k: o },
                    3 => Op::Insert { k: o % nkeys, vid: vid2, w: 1 },
                    4 if cfg.kind == Kind::Unsync => Op::InvalidateIf { p: Pred::Nothing },
                    _ => Op::Invalidate { k: c },
                };
                self.script.push_back(last);
            }
            // a popular, heavy candidate is queued first; then every other resident from the LRU end is
            // invalidated while the candidate's op is still queued: its victim scan has to walk past
            // scattered nodes whose entries have left the map
            99 => {
                let mut by_recency: Vec<(u64, u32)> = resident.iter().filter_map(|k| truth.cur(*k).map(|l| (l.use_seq, *k))).collect();
                by_recency.sort();
                let c = if non_resident.is_empty() { k } else { *self.rng.pick(&non_resident) };
                for _ in 0..self.rng.range(2, 5) {
                    self.script.push_back(Op::Get { k: c });
                }
                let cap = cfg.cap.unwrap_or(4);
                let w = if cfg.weigher { self.rng.range((cap / 2).max(1), cap) as u32 } else { 1 };
                let vid = self.vid();
                self.script.push_back(Op::Insert { k: c, vid, w });
                if by_recency.len() >= 7 && self.rng.chance(1, 3) {
                    // a run of 6-8 consecutive LRU residents: the victim scan gives up after more than five
                    // consecutive nodes whose entries have left the map
                    let n = (self.rng.range(6, 8) as usize).min(by_recency.len() - 1);
                    for (_, key) in by_recency.iter().take(n) {
                        self.script.push_back(Op::Invalidate { k: *key });
                    }
                } else {
                    let step = self.rng.range(2, 3) as usize;
                    for (i, (_, key)) in by_recency.iter().enumerate() {
                        if i % step == 0 && self.rng.chance(4, 5) {
                            self.script.push_back(Op::Invalidate { k: *key });
                        }
                    }
                }
                self.script.push_back(Op::Sync);
            }
            // a candidate that is looked up m times before it is inserted (popular newcomer)
            0 | 1 => {
                let c = if non_resident.is_empty() { k } else { *self.rng.pick(&non_resident) };
                let m = self.rng.range(1, 4);
                for _ in 0..m {
                    self.script.push_back(Op::Get { k: c });
                }
                let wt = self.weight(cfg);
                let vid = self.vid();
                self.script.push_back(Op::Insert { k: c, vid, w: wt });
            }
            // scan: never-read keys inserted one after the other
            2 => {
                for c in non_resident.iter().take(3) {
                    let wt = self.weight(cfg);
                    let vid = self.vid();
                    self.script.push_back(Op::Insert { k: *c, vid, w: wt });
                }
                if self.script.is_empty() {
                    self.script.push_back(Op::Get { k });
                }
            }
            // read residents (makes them popular / refreshes recency), the LRU one in particular
            3 => {
                for r in resident.iter().take(3) {
                    self.script.push_back(Op::Get { k: *r });
                }
                if self.script.is_empty() {
                    self.script.push_back(Op::Get { k });
                }
            }
            // invalidate, then re-insert the same key right away, then probe it
            4 => {
                let c = if resident.is_empty() { k } else { *self.rng.pick(&resident) };
                if self.rng.chance(1, 2) {
                    self.script.push_back(Op::Get { k: c });
                }
                match self.rng.below(3) {
                    0 => self.script.push_back(Op::Invalidate { k: c }),
                    1 => {
                        if self.rng.chance(1, 2) {
                            self.script.push_back(Op::Advance { ns: self.rng.range(1, 5) });
                        }
                        self.script.push_back(Op::InvalidateAll)
                    }
                    _ => {
                        if cfg.kind == Kind::Unsync {
                            self.script.push_back(Op::InvalidateIf { p: Pred::KeyEq(c) })
                        } else {
                            self.script.push_back(Op::Invalidate { k: c })
                        }
                    }
                }
                if self.rng.chance(1, 2) {
                    self.script.push_back(Op::Advance { ns: self.rng.below(3) });
                }
                let wt = self.weight(cfg);
                let vid = self.vid();
                self.script.push_back(Op::Insert { k: c, vid, w: wt });
                if cfg.kind == Kind::Sync && self.rng.chance(1, 2) {
                    self.script.push_back(Op::Sync);
                }
                self.script.push_back(if self.rng.chance(1, 2) { Op::Get { k: c } } else { Op::Contains { k: c } });
            }
            // update of a resident with a different weight (grow / shrink), twice in a row
            5 => {
                let c = if resident.is_empty() { k } else { *self.rng.pick(&resident) };
                for _ in 0..self.rng.range(1, 2) {
                    let wt = self.weight(cfg);
                    let vid = self.vid();
                    self.script.push_back(Op::Insert { k: c, vid, w: wt });
                }
            }
            // fill the cache, let everything expire or invalidate it, refill
            6 => {
                let n = cfg.cap.unwrap_or(4).min(nkeys as u64).max(1) as u32;
                for c in 0..n {
                    let wt = self.weight(cfg);
                    let vid = self.vid();
                    self.script.push_back(Op::Insert { k: c, vid, w: wt });
                }
                match self.rng.below(3) {
                    0 if cfg.ttl.is_some() || cfg.tti.is_some() => {
                        let d = cfg.ttl.unwrap_or(u64::MAX).min(cfg.tti.unwrap_or(u64::MAX)).min(20 * SEC);
                        self.script.push_back(Op::Advance { ns: d });
                    }
                    1 if cfg.kind == Kind::Unsync => self.script.push_back(Op::InvalidateIf { p: Pred::All }),
                    _ => {
                        self.script.push_back(Op::Advance { ns: 1 });
                        self.script.push_back(Op::InvalidateAll);
                    }
                }
                if cfg.kind == Kind::Sync && self.rng.chance(2, 3) {
                    self.script.push_back(Op::Sync);
                }
                for c in 0..n {
                    let key = (c + n) % nkeys;
                    let vid = self.vid();
                    self.script.push_back(Op::Insert { k: key, vid, w: 1 });
                }
            }
            // probe around a deadline with every lookup kind
            _ => {
                if let Some(d) = truth.next_deadline(now) {
                    let delta = d - now;
                    self.script.push_back(Op::Advance { ns: delta.saturating_sub(1) });
                    self.script.push_back(Op::Contains { k });
                    self.script.push_back(Op::Iter);
                    self.script.push_back(Op::Advance { ns: 1.min(delta) });
                    self.script.push_back(Op::Contains { k });
                    self.script.push_back(Op::Get { k });
                    self.script.push_back(Op::Iter);
                } else {
                    self.script.push_back(Op::Iter);
                }
            }
        }
    }
}
