//! Ground-truth log: what the harness itself knows about every key, independent of the
//! implementation. All verdicts about lookups are taken against this log.

use crate::hist::{Config, Kind, Pred};
use std::collections::BTreeMap;

#[derive(Clone, Copy, Debug, PartialEq, Eq)]
pub enum DeadReason {
    NeverInserted,
    InvalidatedByKey,
    InvalidatedByAll,
    InvalidatedByPred,
}

#[derive(Clone, Copy, Debug, PartialEq, Eq)]
pub struct Live {
    pub vid: u64,
    pub weight: u32,
    /// clock reading of the last insert / update
    pub t_mod: u64,
    /// latest of insert, update and successful get (upper bound of the implementation's
    /// idea of the last access)
    pub a_hi: u64,
    /// latest of insert, update and successful get that is guaranteed to have been applied
    /// (unsync: = a_hi; sync: gets count once an explicit sync() followed them)
    pub a_lo: u64,
    /// sync only: inserted at the very clock reading of a later invalidate_all; the
    /// statement neither requires it to be visible nor to be gone.
    pub uncertain: bool,
    /// sequence number of the last use (insert, update, successful get): recency order
    pub use_seq: u64,
}

#[derive(Clone, Debug)]
pub struct KeyTruth {
    pub cur: Option<Live>,
    pub dead: DeadReason,
    /// every value id ever written to this key
    pub written: Vec<u64>,
    /// the record of the value that was last invalidated by invalidate_all
    pub last_dead: Option<Live>,
    /// an insert whose call panicked in a callback of the caller after it had changed something:
    /// it may or may not have taken effect. Until the key is written or invalidated again, a
    /// lookup may see `cur` or `alt`, each under its own deadlines.
    pub alt: Option<Live>,
}

impl Default for KeyTruth {
    fn default() -> Self {
        KeyTruth {
            cur: None,
            dead: DeadReason::NeverInserted,
            written: Vec::new(),
            last_dead: None,
            alt: None,
        }
    }
}

#[derive(Clone, Copy, Debug, PartialEq, Eq)]
pub enum Liveness {
    /// must not be observable; reason attached
    Dead(DeadReason),
    ExpiredTtl,
    ExpiredTti,
    /// may be observable, need not be (idle deadline between a_lo and a_hi, or uncertain)
    Maybe,
    /// observable unless capacity explains its absence
    Live,
}

#[derive(Clone, Debug)]
pub struct Truth {
    pub kind: Kind,
    pub ttl: Option<u64>,
    pub tti: Option<u64>,
    pub cap: Option<u64>,
    pub keys: BTreeMap<u32, KeyTruth>,
    pub seq: u64,
    /// Sum of the weights of all inserts of the history so far (upper bound of anything the
    /// cache can hold): while it is <= cap, capacity can never explain a loss.
    pub total_inserted_weight: u64,
    /// gets recorded since the last explicit sync (sync cache)
    pub gets_since_sync: u64,
}

impl Truth {
    pub fn new(cfg: &Config) -> Truth {
        Truth {
            kind: cfg.kind,
            ttl: cfg.ttl,
            tti: cfg.tti,
            cap: cfg.cap,
            keys: BTreeMap::new(),
            seq: 0,
            total_inserted_weight: 0,
            gets_since_sync: 0,
        }
    }

    pub fn key(&self, k: u32) -> Option<&KeyTruth> {
        self.keys.get(&k)
    }

    pub fn cur(&self, k: u32) -> Option<&Live> {
        self.keys.get(&k).and_then(|t| t.cur.as_ref())
    }

    pub fn liveness(&self, k: u32, now: u64) -> Liveness {
        match self.keys.get(&k) {
            None => Liveness::Dead(DeadReason::NeverInserted),
            Some(kt) => {
                let lv = match &kt.cur {
                    None => Liveness::Dead(kt.dead),
                    Some(l) => self.liveness_of(l, now),
                };
                // an insert of unknown outcome is pending: nothing is promised about presence
                if kt.alt.is_some() && lv == Liveness::Live {
                    Liveness::Maybe
                } else {
                    lv
                }
            }
        }
    }

    pub fn liveness_of(&self, l: &Live, now: u64) -> Liveness {
        if let Some(ttl) = self.ttl {
            if now >= l.t_mod.saturating_add(ttl) {
                return Liveness::ExpiredTtl;
            }
        }
        if let Some(tti) = self.tti {
            if now >= l.a_hi.saturating_add(tti) {
                return Liveness::ExpiredTti;
            }
            if now >= l.a_lo.saturating_add(tti) {
                return Liveness::Maybe;
            }
        }
        if l.uncertain {
            return Liveness::Maybe;
        }
        Liveness::Live
    }

    pub fn may_be_visible(&self, k: u32, now: u64) -> bool {
        matches!(self.liveness(k, now), Liveness::Maybe | Liveness::Live)
    }

    pub fn must_be_live(&self, k: u32, now: u64) -> bool {
        matches!(self.liveness(k, now), Liveness::Live)
    }

    /// While true, capacity cannot be the reason for any absence.
    pub fn capacity_never_binding(&self) -> bool {
        match self.cap {
            None => true,
            Some(c) => self.total_inserted_weight <= c,
        }
    }

    pub fn effective_weight(cfg_weigher: bool, w: u32) -> u32 {
        if cfg_weigher {
            w
        } else {
            1
        }
    }

    pub fn on_insert(&mut self, k: u32, vid: u64, weight: u32, now: u64) {
        self.seq += 1;
        self.total_inserted_weight = self.total_inserted_weight.saturating_add(weight as u64);
        let kt = self.keys.entry(k).or_default();
        kt.written.push(vid);
        kt.alt = None;
        kt.cur = Some(Live {
            vid,
            weight,
            t_mod: now,
            a_hi: now,
            a_lo: now,
            uncertain: false,
            use_seq: self.seq,
        });
    }

    /// An insert whose call panicked (injected fault) after changing something.
    pub fn on_insert_ambiguous(&mut self, k: u32, vid: u64, weight: u32, now: u64) {
        self.seq += 1;
        self.total_inserted_weight = self.total_inserted_weight.saturating_add(weight as u64);
        let kt = self.keys.entry(k).or_default();
        kt.written.push(vid);
        kt.alt = Some(Live { vid, weight, t_mod: now, a_hi: now, a_lo: now, uncertain: true, use_seq: self.seq });
    }

    /// A lookup saw the value of the ambiguous insert: it did take effect.
    pub fn promote_alt(&mut self, k: u32) {
        if let Some(kt) = self.keys.get_mut(&k) {
            if let Some(a) = kt.alt.take() {
                kt.cur = Some(a);
            }
        }
    }

    /// Is the ambiguous insert of `k` (if any) possibly visible with value `vid` (None: any) at `now`?
    pub fn alt_may_be_visible(&self, k: u32, vid: Option<u64>, now: u64) -> bool {
        match self.keys.get(&k).and_then(|t| t.alt.as_ref()) {
            Some(a) => vid.map(|v| v == a.vid).unwrap_or(true) && matches!(self.liveness_of(a, now), Liveness::Maybe | Liveness::Live),
            None => false,
        }
    }

    /// Another operation of unknown outcome touched `k` (a faulted get / invalidate): nothing is
    /// promised about its presence any more; its idle deadline may have moved to `now`.
    pub fn make_uncertain(&mut self, k: u32, now: u64, accessed: bool) {
        if let Some(l) = self.keys.get_mut(&k).and_then(|t| t.cur.as_mut()) {
            l.uncertain = true;
            if accessed {
                l.a_hi = l.a_hi.max(now);
            }
        }
    }

    /// A `get` that returned the current value.
    pub fn on_get_hit(&mut self, k: u32, now: u64) {
        self.seq += 1;
        let unsync = self.kind == Kind::Unsync;
        if let Some(l) = self.keys.get_mut(&k).and_then(|t| t.cur.as_mut()) {
            l.a_hi = l.a_hi.max(now);
            if unsync {
                l.a_lo = l.a_hi;
            }
            l.use_seq = self.seq;
        }
        self.gets_since_sync += 1;
    }

    pub fn on_get_miss(&mut self) {
        self.gets_since_sync += 1;
    }

    /// An explicit `sync()` returned: the reads recorded so far have been applied. A single thread
    /// never finds the read log full (its own get runs the maintenance at 64 recorded reads, in
    /// both housekeeping regimes), so no read of a sequential history is ever dropped, however
    /// many gets lie between two explicit syncs.
    pub fn on_sync(&mut self, _read_log_size: u64) {
        for kt in self.keys.values_mut() {
            if let Some(l) = kt.cur.as_mut() {
                l.a_lo = l.a_hi;
            }
        }
        self.gets_since_sync = 0;
    }

    pub fn on_invalidate(&mut self, k: u32) {
        if let Some(kt) = self.keys.get_mut(&k) {
            if kt.cur.take().is_some() | kt.alt.take().is_some() {
                kt.dead = DeadReason::InvalidatedByKey;
            }
        }
    }

    pub fn on_invalidate_all(&mut self, now: u64) {
        let sync = self.kind == Kind::Sync;
        for kt in self.keys.values_mut() {
            if let Some(a) = kt.alt {
                if !(sync && a.t_mod >= now) {
                    kt.alt = None;
                    if kt.cur.is_none() {
                        kt.dead = DeadReason::InvalidatedByAll;
                    }
                }
            }
            if let Some(l) = kt.cur.as_mut() {
                if sync && l.t_mod >= now {
                    // same clock reading: neither targeted nor protected
                    l.uncertain = true;
                } else {
                    kt.last_dead = kt.cur.take();
                    kt.dead = DeadReason::InvalidatedByAll;
                }
            }
        }
    }

    /// `pred` is evaluated over the current values of live keys (expired ones included: the
    /// implementation may or may not still hold them; either way they end up unobservable).
    pub fn on_invalidate_if(&mut self, p: Pred) {
        for (k, kt) in self.keys.iter_mut() {
            if let Some(a) = kt.alt.as_ref() {
                // if the ambiguous insert took effect the predicate saw its value, otherwise the
                // old one: when the two verdicts differ, nothing is known any more
                let pa = p.eval(*k, a.vid, a.weight);
                let pc = kt.cur.as_ref().map(|l| p.eval(*k, l.vid, l.weight));
                if pa && pc.unwrap_or(true) {
                    kt.alt = None;
                } else if pa || pc == Some(true) {
                    if let Some(l) = kt.cur.as_mut() {
                        l.uncertain = true;
                    }
                    continue;
                }
            }
            if let Some(l) = kt.cur.as_ref() {
                if p.eval(*k, l.vid, l.weight) {
                    kt.cur = None;
                    kt.dead = DeadReason::InvalidatedByPred;
                }
            }
        }
    }

    /// Earliest future deadline (ttl or tti, by a_hi) strictly after `now`, if any.
    pub fn next_deadline(&self, now: u64) -> Option<u64> {
        let mut best: Option<u64> = None;
        for kt in self.keys.values() {
            if let Some(l) = &kt.cur {
                for d in [self.ttl.map(|t| l.t_mod.saturating_add(t)), self.tti.map(|t| l.a_hi.saturating_add(t))]
                    .into_iter()
                    .flatten()
                {
                    if d > now && best.map(|b| d < b).unwrap_or(true) {
                        best = Some(d);
                    }
                }
            }
        }
        best
    }

    /// Keys whose current value is live or maybe-live at `now`.
    pub fn visible_candidates(&self, now: u64) -> Vec<u32> {
        self.keys
            .keys()
            .copied()
            .filter(|k| self.may_be_visible(*k, now))
            .collect()
    }
}
