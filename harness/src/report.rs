//! Shard report: what a run observed, serialised as one JSON document for ./check to merge.

use crate::json::Json;
use crate::monitor::{Stats, Violation};
use std::collections::BTreeMap;

#[derive(Default)]
pub struct Report {
    pub engine: String,
    pub evaluations: u64,
    pub stats: Stats,
    /// fingerprints of distinct non-trivial cases, per property
    pub distinct: BTreeMap<String, Vec<u64>>,
    pub samples: Vec<Json>,
    pub violations: Vec<Json>,
    pub known: Vec<Json>,
    pub other_property_alarms: BTreeMap<String, u64>,
    pub notes: Vec<String>,
}

impl Report {
    pub fn violation_json(v: &Violation, history: &str, original_ops: usize) -> Json {
        Json::obj()
            .with("props", v.props.iter().map(|p| p.to_string()).collect::<Vec<_>>())
            .with("sig", v.sig.clone())
            .with("detail", v.detail.clone())
            .with("op_index", v.op_index)
            .with("history", history)
            .with("original_ops", original_ops)
    }

    pub fn to_json(&self) -> Json {
        let mut stats = Json::obj();
        for (k, v) in &self.stats.c {
            stats.set(k, *v);
        }
        let mut distinct = Json::obj();
        for (k, v) in &self.distinct {
            distinct.set(k, v.iter().map(|x| format!("{:016x}", x)).collect::<Vec<_>>());
        }
        let mut other = Json::obj();
        for (k, v) in &self.other_property_alarms {
            other.set(k, *v);
        }
        Json::obj()
            .with("engine", self.engine.clone())
            .with("evaluations", self.evaluations)
            .with("stats", stats)
            .with("distinct", distinct)
            .with("samples", Json::Arr(self.samples.clone()))
            .with("violations", Json::Arr(self.violations.clone()))
            .with("known", Json::Arr(self.known.clone()))
            .with("other_property_alarms", other)
            .with("notes", self.notes.clone())
    }

    pub fn write(&self, path: &str) {
        std::fs::write(path, self.to_json().dump()).expect("cannot write report");
    }
}

/// Tiny argv parser: `--key value` pairs and flags.
pub struct Args {
    pub kv: BTreeMap<String, String>,
}

impl Args {
    pub fn parse() -> Args {
        let mut kv = BTreeMap::new();
        let a: Vec<String> = std::env::args().skip(1).collect();
        let mut i = 0;
        while i < a.len() {
            if let Some(k) = a[i].strip_prefix("--") {
                if i + 1 < a.len() && !a[i + 1].starts_with("--") {
                    kv.insert(k.to_string(), a[i + 1].clone());
                    i += 2;
                } else {
                    kv.insert(k.to_string(), "1".to_string());
                    i += 1;
                }
            } else {
                i += 1;
            }
        }
        Args { kv }
    }
    pub fn get(&self, k: &str) -> Option<&str> {
        self.kv.get(k).map(|s| s.as_str())
    }
    pub fn u64(&self, k: &str, d: u64) -> u64 {
        self.get(k).and_then(|s| s.parse().ok()).unwrap_or(d)
    }
    pub fn str(&self, k: &str, d: &str) -> String {
        self.get(k).unwrap_or(d).to_string()
    }
    pub fn list(&self, k: &str) -> Vec<String> {
        self.get(k).map(|s| s.split(',').filter(|x| !x.is_empty()).map(|x| x.to_string()).collect()).unwrap_or_default()
    }
}

/// CPU time (user + system) consumed by this process so far, in milliseconds (from /proc).
pub fn process_cpu_ms() -> u64 {
    let stat = match std::fs::read_to_string("/proc/self/stat") {
        Ok(s) => s,
        Err(_) => return 0,
    };
    // the command name (field 2) may contain spaces: skip past the closing parenthesis
    let rest = match stat.rfind(')') {
        Some(i) => &stat[i + 1..],
        None => return 0,
    };
    let f: Vec<&str> = rest.split_whitespace().collect();
    // rest starts at field 3: utime is field 14, stime field 15
    let ticks: u64 = f.get(11).and_then(|x| x.parse().ok()).unwrap_or(0) + f.get(12).and_then(|x| x.parse().ok()).unwrap_or(0);
    ticks * 10
}

/// The kernel thread id of the calling thread (from the /proc/thread-self link).
pub fn current_tid() -> Option<u32> {
    std::fs::read_link("/proc/thread-self").ok().and_then(|p| p.file_name().and_then(|n| n.to_str().and_then(|s| s.parse().ok())))
}

/// CPU time consumed by one thread of this process, in milliseconds.
pub fn thread_cpu_ms(tid: u32) -> u64 {
    let stat = match std::fs::read_to_string(format!("/proc/self/task/{}/stat", tid)) {
        Ok(s) => s,
        Err(_) => return 0, // the thread has exited
    };
    let rest = match stat.rfind(')') {
        Some(i) => &stat[i + 1..],
        None => return 0,
    };
    let f: Vec<&str> = rest.split_whitespace().collect();
    let ticks: u64 = f.get(11).and_then(|x| x.parse().ok()).unwrap_or(0) + f.get(12).and_then(|x| x.parse().ok()).unwrap_or(0);
    ticks * 10
}

/// Deadlock criterion that does not depend on how loaded the machine is: the work is not
/// finished, yet the whole process has consumed (almost) no CPU time for `window`: every thread
/// is blocked, and nobody is left to unblock them.
pub struct IdleWatch {
    last_cpu: u64,
    since: std::time::Instant,
    window: std::time::Duration,
    /// the worker threads to watch (the watching thread's own polling must not count as progress);
    /// empty: the whole process
    tids: std::sync::Arc<std::sync::Mutex<Vec<u32>>>,
}

impl IdleWatch {
    pub fn new(window_secs: u64) -> IdleWatch {
        IdleWatch { last_cpu: process_cpu_ms(), since: std::time::Instant::now(), window: std::time::Duration::from_secs(window_secs), tids: Default::default() }
    }
    pub fn for_threads(window_secs: u64, tids: std::sync::Arc<std::sync::Mutex<Vec<u32>>>) -> IdleWatch {
        IdleWatch { last_cpu: 0, since: std::time::Instant::now(), window: std::time::Duration::from_secs(window_secs), tids }
    }
    fn cpu(&self) -> u64 {
        let t = self.tids.lock().map(|t| t.clone()).unwrap_or_default();
        if t.is_empty() {
            process_cpu_ms()
        } else {
            t.iter().map(|x| thread_cpu_ms(*x)).sum()
        }
    }
    /// Call periodically while waiting. Returns true when the watched threads have been idle for the window.
    pub fn idle(&mut self) -> bool {
        let cpu = self.cpu();
        if cpu > self.last_cpu + 20 {
            self.last_cpu = cpu;
            self.since = std::time::Instant::now();
            return false;
        }
        self.since.elapsed() > self.window
    }
}
