//! Shard report: what a run observed, serialised as one JSON document for ./check to merge.

use crate::json::Json;
use crate::monitor::{Stats, Violation};
use std::collections::BTreeMap;

#[derive(Default)]
pub struct Report {
    pub engine: String,
    pub evaluations: u64,
    pub stats: Stats,
    /// fingerprints of distinct non-trivial cases, per property
    pub distinct: BTreeMap<String, Vec<u64>>,
    pub samples: Vec<Json>,
    pub violations: Vec<Json>,
    pub known: Vec<Json>,
    pub other_property_alarms: BTreeMap<String, u64>,
    pub notes: Vec<String>,
}

impl Report {
    pub fn violation_json(v: &Violation, history: &str, original_ops: usize) -> Json {
        Json::obj()
            .with("props", v.props.iter().map(|p| p.to_string()).collect::<Vec<_>>())
            .with("sig", v.sig.clone())
            .with("detail", v.detail.clone())
            .with("op_index", v.op_index)
            .with("history", history)
            .with("original_ops", original_ops)
    }

    pub fn to_json(&self) -> Json {
        let mut stats = Json::obj();
        for (k, v) in &self.stats.c {
            stats.set(k, *v);
        }
        let mut distinct = Json::obj();
        for (k, v) in &self.distinct {
            distinct.set(k, v.iter().map(|x| format!("{:016x}", x)).collect::<Vec<_>>());
        }
        let mut other = Json::obj();
        for (k, v) in &self.other_property_alarms {
            other.set(k, *v);
        }
        Json::obj()
            .with("engine", self.engine.clone())
            .with("evaluations", self.evaluations)
            .with("stats", stats)
            .with("distinct", distinct)
            .with("samples", Json::Arr(self.samples.clone()))
            .with("violations", Json::Arr(self.violations.clone()))
            .with("known", Json::Arr(self.known.clone()))
            .with("other_property_alarms", other)
            .with("notes", self.notes.clone())
    }

    pub fn write(&self, path: &str) {
        std::fs::write(path, self.to_json().dump()).expect("cannot write report");
    }
}

/// Tiny argv parser: `--key value` pairs and flags.
pub struct Args {
    pub kv: BTreeMap<String, String>,
}

impl Args {
    pub fn parse() -> Args {
        let mut kv = BTreeMap::new();
        let a: Vec<String> = std::env::args().skip(1).collect();
        let mut i = 0;
        while i < a.len() {
            if let Some(k) = a[i].strip_prefix("--") {
                if i + 1 < a.len() && !a[i + 1].starts_with("--") {
                    kv.insert(k.to_string(), a[i + 1].clone());
                    i += 2;
                } else {
                    kv.insert(k.to_string(), "1".to_string());
                    i += 1;
                }
            } else {
                i += 1;
            }
        }
        Args { kv }
    }
    pub fn get(&self, k: &str) -> Option<&str> {
        self.kv.get(k).map(|s| s.as_str())
    }
    pub fn u64(&self, k: &str, d: u64) -> u64 {
        self.get(k).and_then(|s| s.parse().ok()).unwrap_or(d)
    }
    pub fn str(&self, k: &str, d: &str) -> String {
        self.get(k).unwrap_or(d).to_string()
    }
    pub fn list(&self, k: &str) -> Vec<String> {
        self.get(k).map(|s| s.split(',').filter(|x| !x.is_empty()).map(|x| x.to_string()).collect()).unwrap_or_default()
    }
}

/// CPU time (user + system) consumed by this process so far, in milliseconds (from /proc).
pub fn process_cpu_ms() -> u64 {
    let stat = match std::fs::read_to_string("/proc/self/stat") {
        Ok(s) => s,
        Err(_) => return 0,
    };
    // the command name (field 2) may contain spaces: skip past the closing parenthesis
    let rest = match stat.rfind(')') {
        Some(i) => &stat[i + 1..],
        None => return 0,
    };
    let f: Vec<&str> = rest.split_whitespace().collect();
    // rest starts at field 3: utime is field 14, stime field 15
    let ticks: u64 = f.get(11).and_then(|x| x.parse().ok()).unwrap_or(0) + f.get(12).and_then(|x| x.parse().ok()).unwrap_or(0);
    ticks * 10
}

/// The kernel thread id of the calling thread (from the /proc/thread-self link).
pub fn current_tid() -> Option<u32> {
    std::fs::read_link("/proc/thread-self").ok().and_then(|p| p.file_name().and_then(|n| n.to_str().and_then(|s| s.parse().ok())))
}

/// CPU time consumed by one thread of this process, in milliseconds.
pub fn thread_cpu_ms(tid: u32) -> u64 {
    let stat = match std::fs::read_to_string(format!("/proc/self/task/{}/stat", tid)) {
        Ok(s) => s,
        Err(_) => return 0, // the thread has exited
    };
    let rest = match stat.rfind(')') {
        Some(i) => &stat[i + 1..],
        None => return 0,
    };
    let f: Vec<&str> = rest.split_whitespace().collect();
    let ticks: u64 = f.get(11).and_then(|x| x.parse().ok()).unwrap_or(0) + f.get(12).and_then(|x| x.parse().ok()).unwrap_or(0);
    ticks * 10
}

extern "C" {
    fn _exit(status: i32) -> !;
}

/// Ends the process at once, without running exit handlers. Used after a run was abandoned with
/// threads still blocked inside the cache: the cache they hold was deliberately leaked, and a leak
/// checker running at exit would report the harness' own leak as a finding.
pub fn exit_now(status: i32) -> ! {
    use std::io::Write;
    let _ = std::io::stdout().flush();
    unsafe { _exit(status) }
}

/// (state letter, cpu ticks, context switches) of one thread of this process; None once it has exited.
pub fn thread_activity(tid: u32) -> Option<(char, u64, u64)> {
    let stat = std::fs::read_to_string(format!("/proc/self/task/{}/stat", tid)).ok()?;
    let rest = &stat[stat.rfind(')')? + 1..];
    let f: Vec<&str> = rest.split_whitespace().collect();
    let state = f.first()?.chars().next()?;
    let ticks: u64 = f.get(11).and_then(|x| x.parse().ok()).unwrap_or(0) + f.get(12).and_then(|x| x.parse().ok()).unwrap_or(0);
    let mut switches = 0u64;
    if let Ok(st) = std::fs::read_to_string(format!("/proc/self/task/{}/status", tid)) {
        for l in st.lines() {
            if l.starts_with("voluntary_ctxt_switches") || l.starts_with("nonvoluntary_ctxt_switches") {
                switches += l.split_whitespace().nth(1).and_then(|x| x.parse().ok()).unwrap_or(0);
            }
        }
    }
    Some((state, ticks, switches))
}

/// One line per watched thread: state, kernel wait channel and current system call (diagnostics
/// attached to a deadlock verdict).
pub fn thread_diagnostics(tids: &[u32]) -> String {
    let mut out = Vec::new();
    for t in tids {
        if let Some((st, ticks, sw)) = thread_activity(*t) {
            let wchan = std::fs::read_to_string(format!("/proc/self/task/{}/wchan", t)).unwrap_or_default();
            let sc = std::fs::read_to_string(format!("/proc/self/task/{}/syscall", t)).unwrap_or_default();
            out.push(format!("tid {} state {} cpu-ticks {} switches {} wchan {} syscall {}", t, st, ticks, sw, wchan.trim(), sc.split_whitespace().next().unwrap_or("?")));
        }
    }
    out.join("; ")
}

/// Deadlock criterion that does not depend on how loaded the machine is: the work is not
/// finished, yet for the whole window every watched thread that still exists was seen *blocked*
/// (kernel state S or D, never R: a thread that is merely starved of CPU is runnable), and together
/// they consumed no more than 20 ms of CPU (timed waits that wake up and park again cost microseconds;
/// a thread that sleeps and works in a loop accumulates more): every thread is blocked for good, and nobody is left to unblock them. The verdict needs at least
/// five such observations per second of the window, so a watcher that was itself starved decides nothing.
pub struct IdleWatch {
    last_sig: (u64, u64),
    since: std::time::Instant,
    last_sample: std::time::Instant,
    samples: u64,
    window: std::time::Duration,
    /// the worker threads to watch (the watching thread's own polling must not count as progress);
    /// empty: the whole process
    tids: std::sync::Arc<std::sync::Mutex<Vec<u32>>>,
}

impl IdleWatch {
    pub fn new(window_secs: u64) -> IdleWatch {
        Self::for_threads(window_secs, Default::default())
    }
    pub fn for_threads(window_secs: u64, tids: std::sync::Arc<std::sync::Mutex<Vec<u32>>>) -> IdleWatch {
        let now = std::time::Instant::now();
        IdleWatch { last_sig: (0, 0), since: now, last_sample: now, samples: 0, window: std::time::Duration::from_secs(window_secs), tids }
    }
    pub fn watched(&self) -> Vec<u32> {
        self.tids.lock().map(|t| t.clone()).unwrap_or_default()
    }
    /// (all blocked?, (cpu, switches))
    fn observe(&self) -> (bool, (u64, u64)) {
        let t = self.watched();
        if t.is_empty() {
            return (true, (process_cpu_ms(), 0));
        }
        let mut blocked = true;
        let mut cpu = 0u64;
        let mut sw = 0u64;
        for x in t {
            if let Some((st, ticks, switches)) = thread_activity(x) {
                if st != 'S' && st != 'D' {
                    blocked = false;
                }
                cpu += ticks;
                sw += switches;
            }
        }
        (blocked, (cpu, sw))
    }
    /// Call periodically while waiting. Returns true when the watched threads have been blocked for the window.
    pub fn idle(&mut self) -> bool {
        let now = std::time::Instant::now();
        if now.duration_since(self.last_sample) < std::time::Duration::from_millis(100) && self.samples > 0 {
            return false;
        }
        let (blocked, sig) = self.observe();
        // threads parked in timed waits wake up now and then (context switches, a few microseconds of
        // CPU): progress means more than 2 ticks (20 ms) of CPU since the window began
        if !blocked || sig.0 > self.last_sig.0 + 2 || sig.0 < self.last_sig.0 {
            self.last_sig = sig;
            self.since = now;
            self.samples = 0;
            self.last_sample = now;
            return false;
        }
        self.samples += 1;
        self.last_sample = now;
        self.since.elapsed() > self.window && self.samples >= self.window.as_secs() * 5
    }
}
