//! Configurations, operations and histories, with a line-based text format for replay files.

use crate::rng::Fnv;
use crate::types::HashMode;

#[derive(Clone, Copy, Debug, PartialEq, Eq, Hash)]
pub enum Kind {
    Unsync,
    Sync,
}

/// How often `sync()` is called on the concurrent cache by the driver.
#[derive(Clone, Copy, Debug, PartialEq, Eq, Hash)]
pub enum Density {
    /// after every operation ("exact" mode: C12 / C13 scope)
    Every,
    /// only where the history says so
    Sparse,
}

#[derive(Clone, Debug, PartialEq, Eq, Hash)]
pub struct Config {
    pub kind: Kind,
    pub cap: Option<u64>,
    pub weigher: bool,
    pub ttl: Option<u64>,
    pub tti: Option<u64>,
    pub hasher: HashMode,
    pub density: Density,
    pub keys: u32,
    pub initial_capacity: Option<usize>,
}

impl Config {
    pub fn exact(&self) -> bool {
        self.kind == Kind::Unsync || self.density == Density::Every
    }

    pub fn to_line(&self) -> String {
        fn o(x: Option<u64>) -> String {
            x.map(|v| v.to_string()).unwrap_or_else(|| "none".into())
        }
        format!(
            "config kind={} cap={} weigher={} ttl={} tti={} hasher={} density={} keys={} icap={}",
            if self.kind == Kind::Unsync { "unsync" } else { "sync" },
            o(self.cap),
            self.weigher as u8,
            o(self.ttl),
            o(self.tti),
            self.hasher.name(),
            if self.density == Density::Every { "every" } else { "sparse" },
            self.keys,
            o(self.initial_capacity.map(|x| x as u64)),
        )
    }

    pub fn parse_line(line: &str) -> Option<Config> {
        let mut c = Config {
            kind: Kind::Unsync,
            cap: None,
            weigher: false,
            ttl: None,
            tti: None,
            hasher: HashMode::Identity,
            density: Density::Sparse,
            keys: 4,
            initial_capacity: None,
        };
        let mut it = line.split_whitespace();
        if it.next()? != "config" {
            return None;
        }
        fn o(v: &str) -> Option<Option<u64>> {
            if v == "none" {
                Some(None)
            } else {
                v.parse().ok().map(Some)
            }
        }
        for kv in it {
            let (k, v) = kv.split_once('=')?;
            match k {
                "kind" => c.kind = if v == "sync" { Kind::Sync } else { Kind::Unsync },
                "cap" => c.cap = o(v)?,
                "weigher" => c.weigher = v == "1",
                "ttl" => c.ttl = o(v)?,
                "tti" => c.tti = o(v)?,
                "hasher" => c.hasher = HashMode::parse(v)?,
                "density" => c.density = if v == "every" { Density::Every } else { Density::Sparse },
                "keys" => c.keys = v.parse().ok()?,
                "icap" => c.initial_capacity = o(v)?.map(|x| x as usize),
                _ => return None,
            }
        }
        Some(c)
    }
}

/// Predicates for `invalidate_entries_if`, over (key id, value id, weight).
#[derive(Clone, Copy, Debug, PartialEq, Eq, Hash)]
pub enum Pred {
    All,
    Nothing,
    KeyLt(u32),
    KeyEven,
    KeyEq(u32),
    ValEven,
    WeightGe(u32),
}

impl Pred {
    pub fn eval(&self, key: u32, vid: u64, weight: u32) -> bool {
        match *self {
            Pred::All => true,
            Pred::Nothing => false,
            Pred::KeyLt(n) => key < n,
            Pred::KeyEven => key % 2 == 0,
            Pred::KeyEq(n) => key == n,
            Pred::ValEven => vid % 2 == 0,
            Pred::WeightGe(w) => weight >= w,
        }
    }
    pub fn name(&self) -> String {
        match *self {
            Pred::All => "all".into(),
            Pred::Nothing => "nothing".into(),
            Pred::KeyLt(n) => format!("keylt:{}", n),
            Pred::KeyEven => "keyeven".into(),
            Pred::KeyEq(n) => format!("keyeq:{}", n),
            Pred::ValEven => "valeven".into(),
            Pred::WeightGe(n) => format!("weightge:{}", n),
        }
    }
    pub fn parse(s: &str) -> Option<Pred> {
        Some(match s {
            "all" => Pred::All,
            "nothing" => Pred::Nothing,
            "keyeven" => Pred::KeyEven,
            "valeven" => Pred::ValEven,
            _ => {
                let (a, b) = s.split_once(':')?;
                let n: u32 = b.parse().ok()?;
                match a {
                    "keylt" => Pred::KeyLt(n),
                    "keyeq" => Pred::KeyEq(n),
                    "weightge" => Pred::WeightGe(n),
                    _ => return None,
                }
            }
        })
    }
}

#[derive(Clone, Copy, Debug, PartialEq, Eq, Hash)]
pub enum Op {
    Insert { k: u32, vid: u64, w: u32 },
    Get { k: u32 },
    Contains { k: u32 },
    Iter,
    /// create an iterator, take its first item, advance the clock, take the rest
    IterAdvance { ns: u64 },
    Invalidate { k: u32 },
    InvalidateAll,
    InvalidateIf { p: Pred },
    Advance { ns: u64 },
    Sync,
    /// `n` gets of the same key in a row (a read burst: more recorded reads than the read log holds)
    Gets { k: u32, n: u32 },
    /// the `nth` call of a callback of the caller (site: 0 V::clone, 1 weigher, 2 predicate)
    /// during the next operation panics
    ArmFault { site: u8, nth: u32 },
}

impl Op {
    pub fn to_line(&self) -> String {
        match *self {
            Op::Insert { k, vid, w } => format!("insert {} {} {}", k, vid, w),
            Op::Get { k } => format!("get {}", k),
            Op::Contains { k } => format!("contains {}", k),
            Op::Iter => "iter".into(),
            Op::IterAdvance { ns } => format!("iter_advance {}", ns),
            Op::Invalidate { k } => format!("invalidate {}", k),
            Op::InvalidateAll => "invalidate_all".into(),
            Op::InvalidateIf { p } => format!("invalidate_if {}", p.name()),
            Op::Advance { ns } => format!("advance {}", ns),
            Op::Sync => "sync".into(),
            Op::ArmFault { site, nth } => format!("arm_fault {} {}", site, nth),
            Op::Gets { k, n } => format!("gets {} {}", k, n),
        }
    }

    pub fn parse_line(line: &str) -> Option<Op> {
        let mut it = line.split_whitespace();
        let name = it.next()?;
        let mut num = || -> Option<u64> { it.next()?.parse().ok() };
        Some(match name {
            "insert" => Op::Insert {
                k: num()? as u32,
                vid: num()?,
                w: num()? as u32,
            },
            "get" => Op::Get { k: num()? as u32 },
            "contains" => Op::Contains { k: num()? as u32 },
            "iter" => Op::Iter,
            "iter_advance" => Op::IterAdvance { ns: num()? },
            "invalidate" => Op::Invalidate { k: num()? as u32 },
            "invalidate_all" => Op::InvalidateAll,
            "invalidate_if" => Op::InvalidateIf {
                p: Pred::parse(line.split_whitespace().nth(1)?)?,
            },
            "advance" => Op::Advance { ns: num()? },
            "sync" => Op::Sync,
            "arm_fault" => Op::ArmFault { site: num()? as u8, nth: num()? as u32 },
            "gets" => Op::Gets { k: num()? as u32, n: num()? as u32 },
            _ => return None,
        })
    }

    pub fn kind_name(&self) -> &'static str {
        match self {
            Op::Insert { .. } => "insert",
            Op::Get { .. } => "get",
            Op::Contains { .. } => "contains_key",
            Op::Iter => "iter",
            Op::IterAdvance { .. } => "iter",
            Op::Invalidate { .. } => "invalidate",
            Op::InvalidateAll => "invalidate_all",
            Op::InvalidateIf { .. } => "invalidate_entries_if",
            Op::Advance { .. } => "advance",
            Op::Sync => "sync",
            Op::ArmFault { .. } => "arm_fault",
            Op::Gets { .. } => "get",
        }
    }
}

#[derive(Clone, Debug, PartialEq, Eq)]
pub struct History {
    pub cfg: Config,
    pub ops: Vec<Op>,
}

impl History {
    pub fn to_text(&self) -> String {
        let mut s = self.cfg.to_line();
        s.push('\n');
        for op in &self.ops {
            s.push_str(&op.to_line());
            s.push('\n');
        }
        s
    }

    pub fn parse(text: &str) -> Option<History> {
        let mut cfg = None;
        let mut ops = Vec::new();
        for line in text.lines() {
            let line = line.trim();
            if line.is_empty() || line.starts_with('#') {
                continue;
            }
            if line.starts_with("config") {
                cfg = Some(Config::parse_line(line)?);
            } else {
                ops.push(Op::parse_line(line)?);
            }
        }
        Some(History { cfg: cfg?, ops })
    }

    pub fn fingerprint(&self) -> u64 {
        let mut f = Fnv::default();
        f.write_str(&self.to_text());
        f.0
    }

    /// One-line rendering for evidence samples.
    pub fn compact(&self) -> String {
        let ops: Vec<String> = self.ops.iter().map(|o| o.to_line()).collect();
        format!("{} | {}", self.cfg.to_line(), ops.join("; "))
    }
}
