//! E5: configuration lattice. Every subset of builder calls for both cache kinds with boundary
//! values, the documented build panics, and differential short histories between configurations
//! that must be equivalent.

use mini_moka::sync::ConcurrentCacheExt;
use mmv::cut::Cut;
use mmv::gen::{gen_config, Gen, Profile};
use mmv::hist::{Config, Density, Kind, Op};
use mmv::json::Json;
use mmv::monitor::{install_panic_hook, take_panic, Violation};
use mmv::report::{Args, Report};
use mmv::rng::Rng;
use mmv::truth::Truth;
use mmv::types::{obj_reset, TestBuildHasher, HashMode, TK, TV};
use std::time::Duration;

const KY: u64 = 1000 * 365 * 24 * 3600; // 1000 years in seconds

fn durations() -> Vec<(Duration, bool)> {
    // (value, must build panic?)
    vec![
        (Duration::from_nanos(0), false),
        (Duration::from_nanos(1), false),
        (Duration::from_secs(KY) - Duration::from_nanos(1), false),
        (Duration::from_secs(KY), false),
        (Duration::from_secs(KY) + Duration::from_nanos(1), true),
        (Duration::from_secs(KY + 1), true),
        (Duration::MAX, true),
    ]
}

struct Ctx<'a> {
    report: &'a mut Report,
    prop: String,
    order_base: u64,
    orders_seen: std::collections::HashSet<u64>,
}

impl Ctx<'_> {
    fn violate_props(&mut self, props: &[&'static str], sig: &str, detail: String, case: &str) {
        self.report.stats.inc("violating_cases");
        if self.prop != "all" && !props.iter().any(|p| *p == self.prop) {
            return;
        }
        if self.report.violations.len() < 6 && !self.report.violations.iter().any(|v| v.get("sig").and_then(|s| s.as_str()) == Some(sig)) {
            let v = Violation { props: props.to_vec(), sig: sig.into(), detail, op_index: 0 };
            self.report.violations.push(Report::violation_json(&v, &format!("# engine cfgmon\n# {}\n", case), 0));
        }
    }

    fn violate(&mut self, sig: &str, detail: String, case: &str) {
        self.report.stats.inc("violating_cases");
        if self.prop != "all" && self.prop != "C17" {
            return;
        }
        if self.report.violations.len() < 6 && !self.report.violations.iter().any(|v| v.get("sig").and_then(|s| s.as_str()) == Some(sig)) {
            let v = Violation { props: vec!["C17"], sig: sig.into(), detail, op_index: 0 };
            self.report.violations.push(Report::violation_json(&v, &format!("# engine cfgmon\n# {}\n", case), 0));
        }
    }
}

#[derive(Clone, Copy, Debug)]
struct Knobs {
    cap: Option<u64>,
    icap: Option<usize>,
    weigher: bool,
    ttl: Option<Duration>,
    tti: Option<Duration>,
    with_hasher: bool,
    /// which permutation of the five setters is used (see `cut::setter_order`)
    order: u64,
}

fn build_and_check(ctx: &mut Ctx, kind: Kind, k: Knobs, must_panic: Option<&'static str>) {
    let case = format!("{:?} {:?}", kind, k);
    ctx.report.evaluations += 1;
    ctx.report.stats.inc("builder_combinations");
    let r = std::panic::catch_unwind(|| -> ((Option<u64>, Option<Duration>, Option<Duration>), Option<(String, String)>) {
        match kind {
            Kind::Unsync => {
                let mut b = mini_moka::unsync::Cache::<TK, TV>::builder();
                for s in mmv::cut::setter_order(k.order) {
                    match s {
                        0 => {
                            if let Some(c) = k.cap {
                                b = b.max_capacity(c);
                            }
                        }
                        1 => {
                            if let Some(c) = k.icap {
                                b = b.initial_capacity(c);
                            }
                        }
                        2 => {
                            if k.weigher {
                                b = b.weigher(|_k, v: &TV| v.weight);
                            }
                        }
                        3 => {
                            if let Some(d) = k.ttl {
                                b = b.time_to_live(d);
                            }
                        }
                        _ => {
                            if let Some(d) = k.tti {
                                b = b.time_to_idle(d);
                            }
                        }
                    }
                }
                // whatever the builder accepted must be usable: a few ordinary calls, none of which may panic
                macro_rules! exercise_unsync {
                    ($c:expr) => {{
                        let mut c = $c;
                        let p = c.policy();
                        let e = std::panic::catch_unwind(std::panic::AssertUnwindSafe(|| {
                            c.insert(TK::new(1), TV::new(1, 1));
                            let _ = c.get(&TK::probe(1)).map(|v| v.vid);
                            c.insert(TK::new(2), TV::new(2, 1));
                            let _ = c.contains_key(&TK::probe(2));
                            c.invalidate(&TK::probe(1));
                            let _ = c.iter().count();
                        }));
                        let ex = if e.is_err() { std::mem::forget(c); take_panic() } else { None };
                        ((p.max_capacity(), p.time_to_live(), p.time_to_idle()), ex)
                    }};
                }
                if k.with_hasher {
                    exercise_unsync!(b.build_with_hasher(TestBuildHasher(HashMode::Identity)))
                } else {
                    exercise_unsync!(b.build())
                }
            }
            Kind::Sync => {
                let mut b = mini_moka::sync::Cache::<TK, TV>::builder();
                for s in mmv::cut::setter_order(k.order) {
                    match s {
                        0 => {
                            if let Some(c) = k.cap {
                                b = b.max_capacity(c);
                            }
                        }
                        1 => {
                            if let Some(c) = k.icap {
                                b = b.initial_capacity(c);
                            }
                        }
                        2 => {
                            if k.weigher {
                                b = b.weigher(|_k, v: &TV| v.weight);
                            }
                        }
                        3 => {
                            if let Some(d) = k.ttl {
                                b = b.time_to_live(d);
                            }
                        }
                        _ => {
                            if let Some(d) = k.tti {
                                b = b.time_to_idle(d);
                            }
                        }
                    }
                }
                macro_rules! exercise_sync {
                    ($c:expr) => {{
                        let c = $c;
                        let p = c.policy();
                        let e = std::panic::catch_unwind(std::panic::AssertUnwindSafe(|| {
                            c.insert(TK::new(1), TV::new(1, 1));
                            let _ = c.get(&TK::probe(1)).map(|v| v.vid);
                            c.sync();
                            c.insert(TK::new(2), TV::new(2, 1));
                            let _ = c.contains_key(&TK::probe(2));
                            c.invalidate(&TK::probe(1));
                            c.sync();
                            let _ = c.iter().count();
                        }));
                        let ex = if e.is_err() { std::mem::forget(c); take_panic() } else { None };
                        ((p.max_capacity(), p.time_to_live(), p.time_to_idle()), ex)
                    }};
                }
                if k.with_hasher {
                    exercise_sync!(b.build_with_hasher(TestBuildHasher(HashMode::Identity)))
                } else {
                    exercise_sync!(b.build())
                }
            }
        }
    });
    // a cache that was built must not panic in ordinary calls (C08), whatever durations it was built with
    let r = match r {
        Ok((p, ex)) => {
            ctx.report.stats.inc("built_caches_exercised");
            if let Some((loc, msg)) = ex {
                ctx.violate_props(&["C08", "C17"], &format!("panic@{}", mmv::monitor::norm_loc(&loc)), format!("a cache that build accepted ({:?}) panicked in an ordinary call at {}: {}", k, loc, msg), &case);
            }
            Ok(p)
        }
        Err(e) => Err(e),
    };
    match (r, must_panic) {
        (Ok(p), None) => {
            if p != (k.cap, k.ttl, k.tti) {
                ctx.violate("config:policy-does-not-echo", format!("policy() reports {:?}, built with {:?}", p, (k.cap, k.ttl, k.tti)), &case);
            }
        }
        (Ok(_), Some(which)) => {
            ctx.report.stats.inc("boundary_durations_above_limit");
            ctx.violate("config:build-does-not-panic-above-1000-years", format!("build accepted a {} above 1000 years: {:?}", which, k), &case);
        }
        (Err(_), None) => {
            let (loc, msg) = take_panic().unwrap_or_default();
            ctx.violate("config:build-panics-for-valid-config", format!("build panicked at {} for a valid configuration: {}", loc, msg), &case);
        }
        (Err(_), Some(which)) => {
            ctx.report.stats.inc("boundary_durations_above_limit");
            let (_, msg) = take_panic().unwrap_or_default();
            let want = format!("{} is longer than 1000 years", which);
            // when both are too long, either message is fine
            if !msg.contains("is longer than 1000 years") || (!msg.contains(&want) && !(k.ttl.map(|d| d > Duration::from_secs(KY)).unwrap_or(false) && k.tti.map(|d| d > Duration::from_secs(KY)).unwrap_or(false))) {
                ctx.violate("config:wrong-panic-message", format!("build panicked with `{}`, expected `{}`", msg, want), &case);
            }
        }
    }
}

fn lattice(ctx: &mut Ctx) {
    let caps = [None, Some(0u64), Some(1), Some((1u64 << 32) - 1), Some(1u64 << 32), Some(u64::MAX)];
    let icaps = [None, Some(0usize), Some(1), Some(1000)];
    let mut durs: Vec<(Option<Duration>, bool)> = vec![(None, false)];
    durs.extend(durations().into_iter().map(|(d, p)| (Some(d), p)));
    // every combination is built with another order of the setter calls (all 120 orders occur)
    let mut order = ctx.order_base;
    for kind in [Kind::Unsync, Kind::Sync] {
        for cap in caps {
            for icap in icaps {
                for weigher in [false, true] {
                    for (ttl, tp) in &durs {
                        for (tti, ip) in &durs {
                            for with_hasher in [false, true] {
                                order += 1;
                                let k = Knobs { cap, icap, weigher, ttl: *ttl, tti: *tti, with_hasher, order };
                                ctx.orders_seen.insert(order % 120);
                                let must = if *tp { Some("time_to_live") } else if *ip { Some("time_to_idle") } else { None };
                                build_and_check(ctx, kind, k, must);
                            }
                        }
                    }
                }
            }
        }
    }
}

fn behaviour(ctx: &mut Ctx, rng: &mut Rng) {
    // a cache built without max_capacity never evicts for size, whatever the weights
    for kind in [Kind::Unsync, Kind::Sync] {
        for weigher in [false, true] {
            obj_reset();
            let cfg = Config { kind, cap: None, weigher, ttl: None, tti: None, hasher: HashMode::Mix(rng.below(99)), density: Density::Sparse, keys: 10_000, initial_capacity: None };
            let mut c = Cut::new(&cfg);
            let n = 10_000u32;
            for k in 0..n {
                let w = *rng.pick(&[0u32, 1, 7, 1000, u32::MAX]);
                c.insert(k, k as u64 + 1, w);
            }
            c.sync();
            let items = c.iter().len();
            ctx.report.evaluations += 1;
            ctx.report.stats.inc("unbounded_retention_runs");
            if items != n as usize {
                ctx.violate("config:unbounded-cache-lost-entries", format!("{:?} cache without max_capacity (weigher {}) retained {} of {} inserts", kind, weigher, items, n), "unbounded");
            }
        }
        // without a weigher every entry weighs 1: exactly `cap` never-read unit entries are admitted
        for cap in [1u64, 2, 7, 64, 300] {
            obj_reset();
            let cfg = Config { kind, cap: Some(cap), weigher: false, ttl: None, tti: None, hasher: HashMode::Mix(rng.below(99)), density: Density::Sparse, keys: 1000, initial_capacity: None };
            let mut c = Cut::new(&cfg);
            for k in 0..(cap as u32 + 20) {
                c.insert(k, k as u64 + 1, *rng.pick(&[0u32, 5, 100])); // the value's own weight must be ignored
                c.sync();
            }
            let (ec, ws) = c.counters();
            let items = c.iter().len() as u64;
            ctx.report.evaluations += 1;
            ctx.report.stats.inc("no_weigher_unit_weight_runs");
            if ec != ws || items != cap || ec != cap {
                ctx.violate(
                    "config:no-weigher-is-not-unit-weight",
                    format!("{:?} cache, max_capacity {}, no weigher: entry_count {} weighted_size {} entries {} after {} never-read inserts", kind, cap, ec, ws, items, cap + 20),
                    "no-weigher",
                );
            }
        }
    }
    // new(n) is builder().max_capacity(n).build(): RandomState hashers, so only hash-independent facts
    for n in [0u64, 1, 5, 100, 300, 1000, 5000] {
        let a = mini_moka::sync::Cache::<u32, u32>::new(n);
        let b = mini_moka::sync::Cache::<u32, u32>::builder().max_capacity(n).build();
        let ua = mini_moka::unsync::Cache::<u32, u32>::new(n);
        let ub = mini_moka::unsync::Cache::<u32, u32>::builder().max_capacity(n).build();
        let pol = |p: mini_moka::Policy| (p.max_capacity(), p.time_to_live(), p.time_to_idle());
        ctx.report.evaluations += 1;
        ctx.report.stats.inc("new_vs_builder_runs");
        if pol(a.policy()) != pol(b.policy()) || pol(ua.policy()) != pol(ub.policy()) || pol(a.policy()) != (Some(n), None, None) {
            ctx.violate("config:new-differs-from-builder", format!("new({}) and builder().max_capacity({}).build() report different policies", n, n), "new");
        }
        let run_sync = |c: &mini_moka::sync::Cache<u32, u32>| -> Vec<Option<u32>> {
            for k in 0..n as u32 + 1 {
                c.insert(k, k);
                c.sync();
            }
            (0..n as u32 + 1).map(|k| c.get(&k)).collect()
        };
        let (ra, rb) = (run_sync(&a), run_sync(&b));
        let mut ua = ua;
        let mut ub = ub;
        let run_unsync = |c: &mut mini_moka::unsync::Cache<u32, u32>| -> Vec<Option<u32>> {
            for k in 0..n as u32 + 1 {
                c.insert(k, k);
            }
            (0..n as u32 + 1).map(|k| c.get(&k).copied()).collect()
        };
        let (rua, rub) = (run_unsync(&mut ua), run_unsync(&mut ub));
        // the first n never-read keys fit; the (n+1)-th has popularity 0 and is rejected whatever the hash
        let want: Vec<Option<u32>> = (0..n as u32 + 1).map(|k| if (k as u64) < n { Some(k) } else { None }).collect();
        if ra != rb || rua != rub || ra != want || rua != want {
            ctx.violate("config:new-differs-from-builder", format!("capacity {}: new() gave {:?} / {:?}, builder gave {:?} / {:?}, expected {:?}", n, ra, rua, rb, rub, want), "new");
        }
        // the popularity table is sized from the configuration and the counters, never from the hashes: after
        // the same operations both caches must have the same table length and the same aging period
        let dims = |s: mini_moka::verif::VerifSketch| (s.table_len(), s.sample_size());
        let (da, db, dua, dub) = (dims(a.verif_sketch()), dims(b.verif_sketch()), dims(ua.verif_sketch()), dims(ub.verif_sketch()));
        ctx.report.stats.inc("new_vs_builder_sketch_dimension_checks");
        if da != db || dua != dub {
            ctx.violate(
                "config:new-differs-from-builder",
                format!("capacity {}: popularity table (length, aging period) of new() = {:?} / {:?}, of builder().max_capacity().build() = {:?} / {:?} after the same operations", n, da, dua, db, dub),
                "new",
            );
        }
    }
}

/// Differential histories: initial_capacity must have no observable effect.
/// "Configured capacity is honoured exactly as given", above u32::MAX: a cache of capacity c*f (+ r, r < f) whose
/// weigher reports multiples of f behaves exactly like a cache of capacity c whose weigher reports the multiples
/// themselves (every decision compares sums of weights with the capacity, and c is even so that the half-capacity
/// threshold of the popularity table scales too). The same history runs on both; every lookup, the held keys, the
/// entry count and weighted_size / f must agree. A capacity that is truncated, saturated or narrowed somewhere
/// shows on the big side only; a defect of the eviction rules themselves shows on both sides alike and is not
/// a C17 alarm.
fn scaled_capacity(ctx: &mut Ctx, rng: &mut Rng, pairs: u64) {
    for i in 0..pairs {
        let kind = if rng.chance(1, 2) { Kind::Unsync } else { Kind::Sync };
        let f = *rng.pick(&[1u64 << 30, 1 << 30, 1_000_000_007, 999_999_937, (1 << 30) + 12345]);
        let c = *rng.pick(&[4u64, 6, 8, 8, 10, 12, 16]);
        let r = *rng.pick(&[0u64, 0, 1]);
        let hasher = HashMode::Mix(rng.below(99));
        let small = Config { kind, cap: Some(c), weigher: true, ttl: None, tti: None, hasher: hasher.clone(), density: Density::Sparse, keys: 16, initial_capacity: None };
        let mut big = small.clone();
        big.cap = Some(c * f + r);
        let nkeys = rng.range(4, 14) as u32;
        let nops = rng.range(20, 90);
        // ops: (kind, key, weight unit)
        let mut ops: Vec<(u8, u32, u32)> = Vec::new();
        for _ in 0..nops {
            let k = rng.below(nkeys as u64) as u32;
            let t = rng.below(100);
            let op = if t < 40 { 0 } else if t < 80 { 1 } else if t < 92 { 2 } else if t < 97 { 3 } else { 4 };
            let wmax = (u32::MAX as u64 / f).min(3);
            ops.push((op, k, rng.below(wmax + 1) as u32));
        }
        let run = |cfg: &Config, scale: u64| -> Vec<String> {
            obj_reset();
            let mut cut = Cut::new(cfg);
            let mut obs = Vec::new();
            let mut vid = 0u64;
            for &(op, k, w) in &ops {
                let o = match op {
                    0 => {
                        vid += 1;
                        cut.insert(k, vid, (w as u64 * scale) as u32);
                        String::new()
                    }
                    1 => format!("{:?}", cut.get(k)),
                    2 => {
                        cut.sync();
                        let (ec, ws) = cut.counters();
                        let mut ks = cut.iter();
                        ks.sort();
                        format!("{} {} {} {:?}", ec, ws / scale, ws % scale, ks)
                    }
                    3 => {
                        cut.invalidate(k);
                        String::new()
                    }
                    _ => format!("{}", cut.contains(k)),
                };
                obs.push(o);
            }
            cut.sync();
            let (ec, ws) = cut.counters();
            let mut ks = cut.iter();
            ks.sort();
            obs.push(format!("{} {} {} {:?}", ec, ws / scale, ws % scale, ks));
            obs
        };
        let a = run(&small, 1);
        let b = run(&big, f);
        ctx.report.evaluations += 1;
        ctx.report.stats.inc("scaled_capacity_pairs");
        ctx.report.distinct.entry("C17".into()).or_default().push(rng.next_u64());
        if let Some(j) = (0..a.len()).find(|&j| a[j] != b[j]) {
            let text: Vec<String> = ops.iter().take(j + 1).map(|(o, k, w)| format!("{} {} {}", ["insert", "get", "sync+observe", "invalidate", "contains_key"][*o as usize], k, w)).collect();
            ctx.violate(
                "config:capacity-above-u32-not-honoured",
                format!("{:?} cache: max_capacity {} = {}*{}+{} with weights in units of {} vs max_capacity {} with unit weights: at step #{} the runs differ: `{}` vs `{}`", kind, c * f + r, c, f, r, f, c, j, b[j], a[j]),
                &format!("{}\n# {}", big.to_line(), text.join("; ")),
            );
        }
        if i == 0 && ctx.report.samples.len() < 6 {
            ctx.report.samples.push(Json::Str(format!("scaled pair: {} vs cap {} | {} ops, final `{}`", big.to_line(), c, ops.len(), a[a.len() - 1])));
        }
    }
}

fn differential(ctx: &mut Ctx, rng: &mut Rng, pairs: u64) {
    for i in 0..pairs {
        let profile = *rng.pick(&[Profile::Admission, Profile::Lru, Profile::General, Profile::Capacity]);
        let mut cfg = gen_config(rng, profile);
        cfg.density = Density::Every;
        cfg.initial_capacity = None;
        let mut cfg2 = cfg.clone();
        cfg2.initial_capacity = Some(*rng.pick(&[0usize, 1, 2, 3, 5, 8, 16, 100, 1000]));
        obj_reset();
        let mut a = Cut::new(&cfg);
        let mut gen = Gen::new(rng.fork(), profile);
        let mut truth = Truth::new(&cfg);
        let nops = rng.range(15, 50);
        let mut ops = Vec::new();
        let mut obs_a = Vec::new();
        let run_op = |c: &mut Cut, op: &Op| -> String {
            let r = match *op {
                Op::Insert { k, vid, w } => {
                    c.insert(k, vid, w);
                    String::new()
                }
                Op::Get { k } => format!("{:?}", c.get(k)),
                Op::Contains { k } => format!("{}", c.contains(k)),
                Op::Iter => {
                    let mut v = c.iter();
                    v.sort();
                    format!("{:?}", v)
                }
                Op::IterAdvance { ns } => {
                    // which item an iterator yields first depends on the table layout, which
                    // initial_capacity may change: advance first, then iterate
                    c.advance(ns);
                    let mut v = c.iter();
                    v.sort();
                    format!("{:?}", v)
                }
                Op::Invalidate { k } => {
                    c.invalidate(k);
                    String::new()
                }
                Op::InvalidateAll => {
                    c.invalidate_all();
                    String::new()
                }
                Op::InvalidateIf { p } => {
                    c.invalidate_if(p);
                    String::new()
                }
                Op::ArmFault { .. } => String::new(),
                Op::Gets { k, n } => {
                    let mut last = None;
                    for _ in 0..n {
                        last = c.get(k);
                    }
                    format!("{:?}", last)
                }
                Op::Advance { ns } => {
                    c.advance(ns);
                    String::new()
                }
                Op::Sync => {
                    c.sync();
                    String::new()
                }
            };
            if !matches!(op, Op::Advance { .. }) {
                c.sync();
            }
            let s = c.snapshot();
            let mut ents: Vec<(u32, u64, u32)> = s.entries.iter().map(|e| (e.key, e.vid, e.weight)).collect();
            ents.sort();
            let order: Vec<u32> = s.probation.iter().map(|n| n.key).collect();
            format!("{} | {:?} | {:?} | {} {} | {:x?}", r, ents, order, s.entry_count, s.weighted_size, c.sketch().table().iter().fold(0u64, |a, x| a.rotate_left(7) ^ x))
        };
        for _ in 0..nops {
            let now = a.now();
            let op = gen.next_op(&cfg, &truth, now);
            let o = run_op(&mut a, &op);
            let eff = |w: u32| if cfg.weigher { w } else { 1 };
            match op {
                Op::Insert { k, vid, w } => truth.on_insert(k, vid, eff(w), now),
                Op::Get { k } => {
                    if !o.starts_with("None") {
                        truth.on_get_hit(k, now)
                    }
                }
                Op::Invalidate { k } => truth.on_invalidate(k),
                Op::InvalidateAll => truth.on_invalidate_all(now),
                Op::InvalidateIf { p } => {
                    if cfg.kind == Kind::Unsync {
                        truth.on_invalidate_if(p)
                    }
                }
                _ => {}
            }
            ops.push(op);
            obs_a.push(o);
        }
        drop(a);
        obj_reset();
        let mut b = Cut::new(&cfg2);
        ctx.report.evaluations += 1;
        ctx.report.stats.inc("initial_capacity_differential_pairs");
        ctx.report.distinct.entry("C17".into()).or_default().push(rng.next_u64());
        for (j, op) in ops.iter().enumerate() {
            let o = run_op(&mut b, op);
            if o != obs_a[j] {
                let text: Vec<String> = ops.iter().take(j + 1).map(|o| o.to_line()).collect();
                ctx.violate(
                    "config:initial_capacity-changes-behaviour",
                    format!("initial_capacity {:?} vs none: after op #{} `{}` the runs differ: `{}` vs `{}`", cfg2.initial_capacity, j, op.to_line(), o, obs_a[j]),
                    &format!("{}\n# {}", cfg2.to_line(), text.join("; ")),
                );
                break;
            }
        }
        drop(b);
        if i % 50 == 0 && ctx.report.samples.len() < 4 {
            let text: Vec<String> = ops.iter().map(|o| o.to_line()).collect();
            ctx.report.samples.push(Json::Str(format!("{} vs icap={:?} | {}", cfg.to_line(), cfg2.initial_capacity, text.join("; "))));
        }
    }
}

/// Far future: clock readings centuries after the cache was built (a time_to_live of up to 1000 years
/// is a legal configuration, so a cache must tell time correctly that long; 2^64 ns are 584.9 years).
/// Scripted scenarios on both caches, judged by their plain expectations. The seeded histories of
/// the other engines keep time in u64 nanoseconds and cannot go there.
fn far_future(report: &mut Report, prop: &str) {
    use mmv::cut::{Cut, Inner};
    use mmv::types::{TestBuildHasher, TK, TV};
    const YEAR: u64 = 365 * 24 * 3600;
    let years = |n: u64| Duration::from_secs(n * YEAR);
    let build = |kind: Kind, ttl: Option<Duration>, tti: Option<Duration>| -> Cut {
        match kind {
            Kind::Unsync => {
                let mut b = mini_moka::unsync::Cache::<TK, TV, _>::builder();
                if let Some(d) = ttl {
                    b = b.time_to_live(d);
                }
                if let Some(d) = tti {
                    b = b.time_to_idle(d);
                }
                let mut c = b.build_with_hasher(TestBuildHasher(HashMode::Mix(7)));
                let clock = c.verif_install_mock_clock();
                let base = clock.now();
                Cut { inner: Inner::U(c), clock, base }
            }
            Kind::Sync => {
                let mut b = mini_moka::sync::Cache::<TK, TV, _>::builder();
                if let Some(d) = ttl {
                    b = b.time_to_live(d);
                }
                if let Some(d) = tti {
                    b = b.time_to_idle(d);
                }
                let c = b.build_with_hasher(TestBuildHasher(HashMode::Mix(7)));
                let clock = c.verif_install_mock_clock();
                let base = clock.now();
                Cut { inner: Inner::S(c), clock, base }
            }
        }
    };
    let mut bad: Vec<(Vec<&'static str>, String, String)> = Vec::new();
    let mut expect = |props: &[&'static str], sig: &str, what: String, ok: bool, report: &mut Report| {
        report.stats.inc("far_future_expectations_checked");
        if !ok {
            bad.push((props.to_vec(), sig.to_string(), what));
        }
    };
    for kind in [Kind::Unsync, Kind::Sync] {
        for sync_between in [false, true] {
            for start in [0u64, 10, 300] {
                obj_reset();
                report.evaluations += 1;
                // S1: invalidate_all centuries after the inserts (at several absolute readings on both
                // sides of multiples of 2^64 ns); inserts after it stay
                for inval_at in [586u64, 590, 700, 1171, 1200] {
                    let mut c = build(kind, None, None);
                    c.clock.advance(years(start));
                    c.insert(1, 1, 1);
                    c.insert(2, 2, 1);
                    if sync_between {
                        c.sync();
                    }
                    let mid = 290.min(inval_at - start - 1);
                    c.clock.advance(years(mid));
                    let seen_mid = c.get(1);
                    c.clock.advance(years(inval_at - start - mid));
                    c.clock.advance(Duration::from_nanos(1));
                    c.invalidate_all();
                    let (g, ct, it) = (c.get(1), c.contains(2), c.iter());
                    expect(&["C01", "C07"], "far-future:visible-after-invalidate_all", format!("{:?} cache, inserts at year {}, invalidate_all at year {}: get {:?}, contains_key {}, iter {:?}", kind, start, inval_at, g, ct, it), g.is_none() && !ct && it.is_empty(), report);
                    expect(&["C03"], "far-future:lost-before-invalidate_all", format!("{:?} cache, insert at year {}: get {} years later returned {:?}", kind, start, mid, seen_mid), seen_mid == Some(1), report);
                    if sync_between {
                        c.sync();
                    }
                    c.insert(3, 3, 1);
                    c.clock.advance(years(100));
                    let g3 = c.get(3);
                    expect(&["C03", "C07"], "far-future:insert-after-invalidate_all-lost", format!("{:?} cache: key inserted after an invalidate_all at year {} is gone 100 years later: {:?}", kind, inval_at, g3), g3 == Some(3), report);
                    drop(c);
                }
                // S2: time_to_live of 600 and of 1000 years
                for ttl_years in [600u64, 1000] {
                    let mut c = build(kind, Some(years(ttl_years)), None);
                    c.clock.advance(years(start));
                    c.insert(1, 1, 1);
                    if sync_between {
                        c.sync();
                    }
                    c.clock.advance(years(ttl_years - 1));
                    let before = (c.get(1), c.contains(1));
                    c.clock.advance(years(1) - Duration::from_nanos(1));
                    let last = c.contains(1);
                    c.clock.advance(Duration::from_nanos(1));
                    let after = (c.get(1), c.contains(1), c.iter());
                    expect(&["C03"], "far-future:ttl-lost-early", format!("{:?} cache, ttl {} years, insert at year {}: a year before the deadline get {:?} contains_key {}, 1 ns before it contains_key {}", kind, ttl_years, start, before.0, before.1, last), before == (Some(1), true) && last, report);
                    expect(&["C05"], "far-future:ttl-expired-visible", format!("{:?} cache, ttl {} years, insert at year {}: at the deadline get {:?} contains_key {} iter {:?}", kind, ttl_years, start, after.0, after.1, after.2), after.0.is_none() && !after.1 && after.2.is_empty(), report);
                    drop(c);
                }
                // S3: time_to_idle of 600 years, kept alive by gets
                let mut c = build(kind, None, Some(years(600)));
                c.clock.advance(years(start));
                c.insert(1, 1, 1);
                c.clock.advance(years(599));
                let g1 = c.get(1);
                if kind == Kind::Sync {
                    c.sync();
                }
                c.clock.advance(years(599));
                let g2 = c.get(1);
                if kind == Kind::Sync {
                    c.sync();
                }
                c.clock.advance(years(600));
                let g3 = (c.contains(1), c.get(1));
                expect(&["C03"], "far-future:tti-lost-early", format!("{:?} cache, tti 600 years: gets 599 years apart returned {:?} and {:?}", kind, g1, g2), g1 == Some(1) && g2 == Some(1), report);
                expect(&["C06"], "far-future:tti-expired-visible", format!("{:?} cache, tti 600 years: 600 years after the last get contains_key {} get {:?}", kind, g3.0, g3.1), !g3.0 && g3.1.is_none(), report);
                drop(c);
            }
        }
    }
    report.distinct.entry(prop.to_string()).or_default().push(0xFA);
    report.distinct.entry(prop.to_string()).or_default().push(0xFB);
    for (props, sig, what) in bad {
        report.stats.inc("violating_cases");
        if (prop == "all" || props.iter().any(|p| *p == prop)) && !report.violations.iter().any(|v| v.get("sig").and_then(|s| s.as_str()) == Some(sig.as_str())) {
            let v = Violation { props, sig, detail: what.clone(), op_index: 0 };
            report.violations.push(Report::violation_json(&v, &format!("# engine cfgmon\n# far future: {}\n", what), 0));
        }
    }
}

fn main() {
    install_panic_hook();
    let args = Args::parse();
    let seed = args.u64("seed", 1);
    let pairs = args.u64("pairs", 2000);
    let shard = args.u64("shard", 0);
    let out = args.str("out", "");
    let mut report = Report { engine: "cfgmon".into(), ..Default::default() };
    let mut rng = Rng::new(seed ^ 0xCF6);
    if args.u64("far-future", 0) == 1 {
        let prop = args.str("prop", "all");
        far_future(&mut report, &prop);
        if out.is_empty() {
            println!("{}", report.to_json().dump());
        } else {
            report.write(&out);
        }
        return;
    }
    {
        let mut ctx = Ctx { report: &mut report, prop: args.str("prop", "C17"), order_base: seed.wrapping_mul(7919), orders_seen: Default::default() };
        if shard == 0 {
            lattice(&mut ctx);
            let n = ctx.orders_seen.len() as u64;
            ctx.report.stats.add("setter_call_orders_used", n);
            behaviour(&mut ctx, &mut rng);
            ctx.report.distinct.entry("C17".into()).or_default().push(1);
            ctx.report.distinct.entry("C17".into()).or_default().push(2);
        }
        differential(&mut ctx, &mut rng, pairs);
        scaled_capacity(&mut ctx, &mut rng, pairs / 4);
    }
    if out.is_empty() {
        println!("{}", report.to_json().dump());
    } else {
        report.write(&out);
    }
}
