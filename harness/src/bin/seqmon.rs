//! E1 driver: generates seeded histories for a profile, runs them under the transition
//! monitor, shrinks failures, and writes a shard report.
//!
//!   seqmon --profile ttl --prop C05 --seed 1 --histories 1000 --ops 40 --out report.json
//!   seqmon --replay file --prop C05
//!   seqmon --mode pure ...        (C15 metamorphic pairs)

use mmv::gen::{gen_config, Gen, Profile};
use mmv::hist::{History, Kind, Op};
use mmv::json::Json;
use mmv::monitor::{install_panic_hook, run_history, Driver, RunOpts, Violation};
use mmv::report::{Args, Report};
use mmv::rng::Rng;
use mmv::shrink::shrink;

fn wanted(v: &Violation, prop: &str) -> bool {
    prop == "all" || v.props.iter().any(|p| *p == prop)
}

fn main() {
    install_panic_hook();
    let args = Args::parse();
    let prop = args.str("prop", "all");
    let known = args.list("known");
    let out = args.str("out", "");
    if let Some(path) = args.get("replay") {
        let text = std::fs::read_to_string(path).expect("cannot read replay file");
        if text.lines().any(|l| l.trim_start().starts_with("extra ")) {
            match mmv_pure::replay(&text) {
                Ok(Some(why)) => {
                    println!("REPLAY-VIOLATION props=[\"C15\"] {}", why);
                    std::process::exit(1);
                }
                Ok(None) => {
                    println!("replayed pair: no difference");
                    std::process::exit(0);
                }
                Err(e) => {
                    println!("replay file is not a history pair: {}", e);
                    std::process::exit(2);
                }
            }
        }
        let h = History::parse(&text).expect("cannot parse replay file");
        mmv::monitor::install_progress_guard();
        let opts = RunOpts { known: known.clone(), stop_at_first: false, drop_at: args.get("drop-at").and_then(|s| s.parse().ok()), light: false, prop: prop.clone() };
        let (res, known_hits) = run_history(&h, opts);
        let mut bad = 0;
        for v in &res.violations {
            if wanted(v, &prop) {
                bad += 1;
                println!("REPLAY-VIOLATION props={:?} sig={} op#{}: {}", v.props, v.sig, v.op_index, v.detail);
            }
        }
        for v in &known_hits {
            println!("REPLAY-KNOWN props={:?} sig={} op#{}: {}", v.props, v.sig, v.op_index, v.detail);
        }
        println!("replayed {} ops, {} violation(s) for {}", res.ops_executed, bad, prop);
        std::process::exit(if bad > 0 { 1 } else { 0 });
    }

    let mode = args.str("mode", "normal");
    if mode == "pure" {
        mmv_pure::run_main(&args);
        return;
    }
    // the driver resets the guard's counters at every step
    mmv::monitor::install_progress_guard();
    let profile = Profile::parse(&args.str("profile", "general")).expect("unknown profile");
    let seed = args.u64("seed", 1);
    let n = args.u64("histories", 100);
    let max_ops = args.u64("ops", 40);
    let drop_prob = args.u64("drop-percent", 0);
    let max_violations = args.u64("max-violations", 5) as usize;
    let light = args.u64("light", 0) == 1;
    let keyfaults = args.u64("key-faults", 0) == 1;

    // The histories run in a worker thread; this thread only watches for the one thing no in-process
    // monitor can report: a call that blocks forever (a lock taken twice by the same thread). The
    // criterion is independent of machine load: work unfinished, but no CPU time consumed for 8 s.
    let out2 = out.clone();
    let prop2 = prop.clone();
    let tids: std::sync::Arc<std::sync::Mutex<Vec<u32>>> = Default::default();
    let tids2 = std::sync::Arc::clone(&tids);
    let worker = std::thread::spawn(move || {
    if let Some(t) = mmv::report::current_tid() {
        tids2.lock().unwrap().push(t);
    }
    let out = out2;
    let prop = prop2;
    let mut report = Report { engine: "seqmon".into(), ..Default::default() };
    let mut master = Rng::new(seed);
    let mut sample_budget = 6usize;
    let mut found_sigs: Vec<String> = Vec::new();
    for hidx in 0..n {
        // the verdict is settled long before: do not burn the budget on a tree that is broken
        if report.stats.c.get("violating_histories").copied().unwrap_or(0) >= 50 {
            report.notes.push(format!("stopped after {} histories: 50 of them violated the property", hidx));
            break;
        }
        let mut rng = master.fork();
        let cfg = gen_config(&mut rng, profile);
        let nops = rng.range(max_ops / 2, max_ops) as usize;
        let drop_at = if drop_prob > 0 && rng.below(100) < drop_prob { Some(rng.below(nops as u64) as usize) } else { None };
        let opts = RunOpts { known: known.clone(), stop_at_first: true, drop_at, light, prop: prop.clone() };
        let mut d = Driver::new(&cfg, opts);
        let mut gen = Gen::new(rng.fork(), profile);
        gen.keyfaults = keyfaults;
        let mut ops: Vec<Op> = Vec::with_capacity(nops);
        *CURRENT.lock().unwrap() = cfg.to_line() + "\n";
        for _ in 0..nops {
            if d.dead {
                break;
            }
            let op = gen.next_op(&cfg, &d.truth, d.now());
            ops.push(op);
            {
                let mut c = CURRENT.lock().unwrap();
                c.push_str(&op.to_line());
                c.push('\n');
            }
            d.step(op);
        }
        let (res, known_hits) = d.finish();
        HISTORIES_DONE.fetch_add(1, std::sync::atomic::Ordering::Relaxed);
        report.evaluations += 1;
        report.stats.merge(&res.stats);
        report.stats.inc(if cfg.kind == Kind::Unsync { "histories_unsync" } else { "histories_sync" });
        if cfg.exact() {
            report.stats.inc("histories_exact_mode");
        }
        let h = History { cfg, ops };
        for p in &res.stats.nontrivial {
            report.distinct.entry(p.to_string()).or_default().push(h.fingerprint());
        }
        if sample_budget > 0 && (prop == "all" || res.stats.nontrivial.contains(prop.as_str())) && hidx % 7 == 0 {
            sample_budget -= 1;
            report.samples.push(Json::Str(h.compact()));
        }
        for v in &known_hits {
            if wanted(v, &prop) && report.known.len() < 20 {
                report.known.push(Report::violation_json(v, &h.to_text(), h.ops.len()));
            }
            report.stats.inc("known_finding_hits");
        }
        for v in &res.violations {
            if wanted(v, &prop) {
                if report.violations.len() < max_violations && !found_sigs.contains(&v.sig) {
                    found_sigs.push(v.sig.clone());
                    let target = if prop == "all" { v.props[0].to_string() } else { prop.clone() };
                    let small = if drop_at.is_some() { h.clone() } else { shrink(&h, &target, &v.sig, &known, 400) };
                    // re-run the shrunk history to report its own detail
                    let (r2, _) = run_history(&small, RunOpts { known: known.clone(), stop_at_first: true, drop_at: None, light: false, prop: target.clone() });
                    let v2 = r2.violations.iter().find(|x| x.sig == v.sig).cloned().unwrap_or_else(|| v.clone());
                    let mut j = Report::violation_json(&v2, &small.to_text(), h.ops.len());
                    if let Some(da) = drop_at {
                        j.set("drop_at", da);
                    }
                    report.violations.push(j);
                }
                report.stats.inc("violating_histories");
            } else {
                for p in &v.props {
                    *report.other_property_alarms.entry(format!("{}:{}", p, v.sig)).or_insert(0) += 1;
                }
            }
        }
    }
    if out.is_empty() {
        println!("{}", report.to_json().dump());
    } else {
        report.write(&out);
    }
    });
    let mut idle = mmv::report::IdleWatch::for_threads(8, tids);
    while !worker.is_finished() {
        std::thread::sleep(std::time::Duration::from_millis(50));
        if idle.idle() {
            let text = CURRENT.lock().map(|c| c.clone()).unwrap_or_default();
            let last = text.lines().last().unwrap_or("").to_string();
            let mut report = Report { engine: "seqmon".into(), ..Default::default() };
            report.evaluations = HISTORIES_DONE.load(std::sync::atomic::Ordering::Relaxed) + 1;
            report.stats.inc("violating_histories");
            report.notes.push("shard stopped: a call blocked forever; the counters of this shard are lost".into());
            let v = Violation {
                props: vec!["C09", "C08"],
                sig: "progress:call-blocks-forever".into(),
                detail: format!("`{}` has not returned and for 8 s the calling thread was seen blocked (kernel state S/D, never runnable) and they consumed no CPU time: it is blocked inside the call and no other thread exists to unblock it [{}]", last, mmv::report::thread_diagnostics(&idle.watched())),
                op_index: text.lines().count().saturating_sub(2),
            };
            if prop == "all" || v.props.iter().any(|p| *p == prop) {
                report.violations.push(Report::violation_json(&v, &text, 0));
            } else {
                report.other_property_alarms.insert(format!("C09:{}", v.sig), 1);
                report.notes.push("a call blocked forever (C09): this shard could not judge its own property".into());
                report.stats.inc("watchdog_fired");
            }
            if out.is_empty() {
                println!("{}", report.to_json().dump());
            } else {
                report.write(&out);
            }
            mmv::report::exit_now(0);
        }
    }
    if worker.join().is_err() {
        eprintln!("seqmon: the worker thread panicked: {:?}", mmv::monitor::take_panic());
        std::process::exit(3);
    }
}

static CURRENT: std::sync::Mutex<String> = std::sync::Mutex::new(String::new());
static HISTORIES_DONE: std::sync::atomic::AtomicU64 = std::sync::atomic::AtomicU64::new(0);

/// C15: metamorphic pairs. `contains_key` and iteration are pure observations.
mod mmv_pure {
    use super::*;
    use mmv::cut::{Cut, Snap};
    use mmv::hist::Config;
    use mmv::truth::Truth;

    #[derive(Clone, Debug, PartialEq)]
    struct Obs {
        result: String,
        sketch: Vec<u64>,
        /// logical projection: live entries (key, vid, weight, la, lm) and LRU order of live keys
        live: Vec<(u32, u64, u32, Option<u64>, Option<u64>)>,
        order: Vec<u32>,
        over_capacity: bool,
        counters_rlen: usize,
        physical: Option<Snap>,
    }

    fn expired(cfg: &Config, la: Option<u64>, lm: Option<u64>, va: Option<u64>, now: u64) -> bool {
        if let (Some(t), Some(ttl)) = (lm, cfg.ttl) {
            if now >= t.saturating_add(ttl) {
                return true;
            }
        }
        if let (Some(t), Some(tti)) = (la, cfg.tti) {
            if now >= t.saturating_add(tti) {
                return true;
            }
        }
        if let Some(va) = va {
            if lm.map(|t| t < va).unwrap_or(false) || la.map(|t| t < va).unwrap_or(false) {
                return true;
            }
        }
        false
    }

    fn observe(cfg: &Config, cut: &Cut, result: String) -> Obs {
        let s = cut.snapshot();
        let now = cut.now();
        let live: Vec<_> = s
            .entries
            .iter()
            .filter(|e| !expired(cfg, e.la, e.lm, s.valid_after, now))
            .map(|e| (e.key, e.vid, e.weight, e.la, e.lm))
            .collect();
        let livekeys: Vec<u32> = live.iter().map(|x| x.0).collect();
        let order: Vec<u32> = s.probation.iter().map(|n| n.key).filter(|k| livekeys.contains(k)).collect();
        let over = cfg.cap.map(|c| s.held_weight() > c).unwrap_or(false);
        Obs {
            result,
            sketch: cut.sketch().table(),
            live,
            order,
            over_capacity: over,
            counters_rlen: s.rlen,
            physical: if cfg.kind == Kind::Sync { Some(strip_addrs(s)) } else { None },
        }
    }

    /// Node addresses differ between two runs; everything else must agree on the sync cache.
    fn strip_addrs(mut s: Snap) -> Snap {
        for e in s.entries.iter_mut() {
            e.info = 0;
            e.ao = e.ao.map(|(_, t)| (0, t));
            e.wo = e.wo.map(|_| 0);
        }
        for d in [&mut s.window, &mut s.probation, &mut s.protected, &mut s.write_order] {
            for n in d.iter_mut() {
                n.addr = 0;
                n.info = 0;
            }
        }
        s
    }

    fn exec(cut: &mut Cut, cfg: &Config, op: &Op, is_base: bool) -> String {
        let r = match *op {
            Op::Insert { k, vid, w } => {
                cut.insert(k, vid, w);
                String::new()
            }
            Op::Get { k } => format!("{:?}", cut.get(k)),
            Op::Contains { k } => format!("{}", cut.contains(k)),
            Op::Iter => {
                let mut v = cut.iter();
                v.sort();
                format!("{:?}", v)
            }
            Op::IterAdvance { ns } => {
                let (mut x, y) = cut.iter_advance(ns);
                x.extend(y);
                x.sort();
                format!("{:?}", x)
            }
            Op::Invalidate { k } => {
                cut.invalidate(k);
                String::new()
            }
            Op::InvalidateAll => {
                cut.invalidate_all();
                String::new()
            }
            Op::InvalidateIf { p } => {
                cut.invalidate_if(p);
                String::new()
            }
            Op::Advance { ns } => {
                cut.advance(ns);
                String::new()
            }
            Op::Sync => {
                cut.sync();
                String::new()
            }
            Op::ArmFault { .. } => String::new(),
            Op::Gets { k, n } => {
                let mut last = None;
                for _ in 0..n {
                    last = cut.get(k);
                }
                format!("{:?}", last)
            }
        };
        // the driver's own sync() belongs to the base ops only: an extra observation must not
        // bring any maintenance with it
        if is_base && cfg.kind == Kind::Sync && cfg.density == mmv::hist::Density::Every && !matches!(op, Op::Advance { .. } | Op::Sync) {
            cut.sync();
        }
        r
    }

    /// Runs `ops`; `base_flags[i]` says whether op i is a base op (observed) or an extra call.
    fn run(cfg: &Config, ops: &[(Op, bool)]) -> Result<Vec<Obs>, String> {
        mmv::types::obj_reset();
        let mut cut = Cut::new(cfg);
        let mut obs = Vec::new();
        for (op, is_base) in ops {
            let r = std::panic::catch_unwind(std::panic::AssertUnwindSafe(|| exec(&mut cut, cfg, op, *is_base)));
            match r {
                Ok(res) => {
                    if *is_base {
                        obs.push(observe(cfg, &cut, res));
                    }
                }
                Err(_) => {
                    std::mem::forget(cut);
                    return Err(format!("panic at {:?}", mmv::monitor::take_panic()));
                }
            }
        }
        Ok(obs)
    }

    pub fn compare(cfg: &Config, base: &[Op], ext: &[(Op, bool)]) -> Option<(usize, String)> {
        let b: Vec<(Op, bool)> = base.iter().map(|o| (*o, true)).collect();
        let ob = run(cfg, &b).ok()?;
        let oe = match run(cfg, ext) {
            Ok(o) => o,
            Err(e) => return Some((0, format!("extended run: {}", e))),
        };
        for (i, (x, y)) in ob.iter().zip(oe.iter()).enumerate() {
            let op = base[i];
            let is_iter = matches!(op, Op::Iter);
            let pending_eviction = x.over_capacity || y.over_capacity;
            if !(is_iter && pending_eviction) && x.result != y.result {
                return Some((i, format!("result of base op #{} `{}` differs: {} vs {} (with the extra observations)", i, op.to_line(), x.result, y.result)));
            }
            if x.sketch != y.sketch {
                return Some((i, format!("popularity table after base op #{} `{}` differs", i, op.to_line())));
            }
            if x.counters_rlen != y.counters_rlen {
                return Some((i, format!("read-op queue length after base op #{} `{}` differs: {} vs {}", i, op.to_line(), x.counters_rlen, y.counters_rlen)));
            }
            if !pending_eviction {
                if x.live != y.live {
                    return Some((i, format!("live entries / timestamps after base op #{} `{}` differ: {:?} vs {:?}", i, op.to_line(), x.live, y.live)));
                }
                if x.order != y.order {
                    return Some((i, format!("recency order after base op #{} `{}` differs: {:?} vs {:?}", i, op.to_line(), x.order, y.order)));
                }
            }
            if let (Some(p), Some(q)) = (&x.physical, &y.physical) {
                if p != q {
                    return Some((i, format!("physical state of the concurrent cache after base op #{} `{}` differs", i, op.to_line())));
                }
            }
        }
        None
    }

    pub fn run_main(args: &Args) {
        let seed = args.u64("seed", 1);
        let n = args.u64("histories", 100);
        let max_ops = args.u64("ops", 40);
        let out = args.str("out", "");
        let mut report = Report { engine: "seqmon-pure".into(), ..Default::default() };
        let mut master = Rng::new(seed ^ 0x5055_5245);
        for hidx in 0..n {
            let mut rng = master.fork();
            let cfg = gen_config(&mut rng, Profile::Pure);
            let nops = rng.range(max_ops / 2, max_ops) as usize;
            // base history, generated online against a plain truth (no monitor needed here)
            mmv::types::obj_reset();
            let mut gen = Gen::new(rng.fork(), Profile::Pure);
            let mut truth = Truth::new(&cfg);
            let mut cut = Cut::new(&cfg);
            let mut base: Vec<Op> = Vec::new();
            // per position: (LRU key, key closest to its idle deadline, work pending: a size excess left
            // by a grown update, or an entry past its deadline that is still held)
            let mut hints: Vec<(Option<u32>, Option<u32>, bool)> = Vec::new();
            let mut ok = true;
            for _ in 0..nops {
                let now = cut.now();
                let s = cut.snapshot();
                let lru = s.probation.first().map(|x| x.key);
                let near = cfg.tti.and_then(|tti| {
                    s.entries
                        .iter()
                        .filter_map(|e| e.la.map(|la| (la.saturating_add(tti).saturating_sub(now), e.key)))
                        .filter(|(d, _)| *d <= 1)
                        .map(|x| x.1)
                        .next()
                });
                let excess = cfg.cap.map(|c| s.weighted_size > c).unwrap_or(false);
                let dead_held = s.entries.iter().any(|e| {
                    cfg.ttl.map(|t| e.lm.map(|lm| lm.saturating_add(t) <= now).unwrap_or(false)).unwrap_or(false)
                        || cfg.tti.map(|t| e.la.map(|la| la.saturating_add(t) <= now).unwrap_or(false)).unwrap_or(false)
                });
                hints.push((lru, near, excess || dead_held));
                let op = gen.next_op(&cfg, &truth, now);
                base.push(op);
                let eff = |w: u32| if cfg.weigher { w } else { 1 };
                let r = std::panic::catch_unwind(std::panic::AssertUnwindSafe(|| exec(&mut cut, &cfg, &op, true)));
                if r.is_err() {
                    ok = false;
                    let _ = mmv::monitor::take_panic();
                    break;
                }
                match op {
                    Op::Insert { k, vid, w } => truth.on_insert(k, vid, eff(w), now),
                    Op::Get { k } => {
                        if r.as_ref().unwrap() != "None" {
                            truth.on_get_hit(k, now)
                        }
                    }
                    Op::Invalidate { k } => truth.on_invalidate(k),
                    Op::InvalidateAll => truth.on_invalidate_all(now),
                    Op::InvalidateIf { p } => {
                        if cfg.kind == Kind::Unsync {
                            truth.on_invalidate_if(p)
                        }
                    }
                    _ => {}
                }
            }
            if ok {
                drop(cut);
            } else {
                std::mem::forget(cut);
                continue; // panics are C08's business
            }
            // extended history
            let mut ext: Vec<(Op, bool)> = Vec::new();
            let mut targeted = (false, false, false);
            let mut targeted_pending = false;
            let mut extras = 0;
            for (i, op) in base.iter().enumerate() {
                let mut k_extra = rng.range(0, 2);
                if rng.chance(1, 2) {
                    k_extra = 0;
                }
                if hints[i].2 && rng.chance(3, 4) {
                    // an observation right before the operation that has to do the pending work
                    k_extra = k_extra.max(1);
                    targeted_pending = true;
                }
                for _ in 0..k_extra {
                    let (lru, near, _) = hints[i];
                    let e = match rng.below(10) {
                        0..=2 => match lru {
                            Some(k) => {
                                targeted.0 = true;
                                Op::Contains { k }
                            }
                            None => Op::Iter,
                        },
                        3 | 4 => match near {
                            Some(k) => {
                                targeted.1 = true;
                                Op::Contains { k }
                            }
                            None => Op::Contains { k: rng.below(cfg.keys as u64) as u32 },
                        },
                        5 | 6 => match op {
                            Op::Insert { k, .. } => {
                                targeted.2 = true;
                                Op::Contains { k: *k }
                            }
                            _ => Op::Iter,
                        },
                        7 => Op::Iter,
                        _ => Op::Contains { k: rng.below(cfg.keys as u64) as u32 },
                    };
                    ext.push((e, false));
                    extras += 1;
                }
                ext.push((*op, true));
            }
            report.evaluations += 1;
            report.stats.add("extra_observations_inserted", extras);
            report.stats.inc(if cfg.kind == Kind::Unsync { "pairs_unsync" } else { "pairs_sync" });
            let h = History { cfg: cfg.clone(), ops: base.clone() };
            if targeted.0 {
                report.stats.inc("pairs_with_extra_call_on_lru_entry");
            }
            if targeted.1 {
                report.stats.inc("pairs_with_extra_call_within_1_tick_of_idle_deadline");
            }
            if targeted.2 {
                report.stats.inc("pairs_with_extra_call_on_candidate_before_insert");
            }
            if targeted_pending {
                report.stats.inc("pairs_with_extra_call_while_excess_or_dead_entry_pending");
            }
            if extras > 0 && (targeted.0 || targeted.1 || targeted.2) {
                report.distinct.entry("C15".into()).or_default().push(h.fingerprint() ^ extras);
            }
            if hidx % 11 == 0 && report.samples.len() < 5 {
                let e: Vec<String> = ext.iter().map(|(o, b)| if *b { o.to_line() } else { format!("[+{}]", o.to_line()) }).collect();
                report.samples.push(Json::Str(format!("{} | {}", cfg.to_line(), e.join("; "))));
            }
            if let Some((i, why)) = compare(&cfg, &base, &ext) {
                report.stats.inc("violating_histories");
                if report.violations.len() < 3 {
                    // shrink: drop extras one at a time, then base ops from the end
                    let mut cur = ext.clone();
                    let mut j = 0;
                    while j < cur.len() {
                        let mut cand = cur.clone();
                        cand.remove(j);
                        let b: Vec<Op> = cand.iter().filter(|x| x.1).map(|x| x.0).collect();
                        if cand.iter().any(|x| !x.1) && compare(&cfg, &b, &cand).is_some() {
                            cur = cand;
                        } else {
                            j += 1;
                        }
                    }
                    let b: Vec<Op> = cur.iter().filter(|x| x.1).map(|x| x.0).collect();
                    let why2 = compare(&cfg, &b, &cur).map(|x| x.1).unwrap_or(why);
                    let text: Vec<String> = cur.iter().map(|(o, bb)| if *bb { o.to_line() } else { format!("extra {}", o.to_line()) }).collect();
                    let v = Violation { props: vec!["C15"], sig: "pure:observation-changed-behaviour".into(), detail: why2, op_index: i };
                    report.violations.push(Report::violation_json(&v, &format!("{}\n{}\n", cfg.to_line(), text.join("\n")), ext.len()));
                }
            }
        }
        if out.is_empty() {
            println!("{}", report.to_json().dump());
        } else {
            report.write(&out);
        }
    }

    /// Replays a pure-mode witness file (lines `extra <op>` mark the added observations).
    /// Ok(Some(why)): the pair differs; Ok(None): no difference; Err: the file cannot be read as a pair.
    pub fn replay(text: &str) -> Result<Option<String>, String> {
        let mut cfg = None;
        let mut ext = Vec::new();
        for line in text.lines() {
            let line = line.trim();
            if line.is_empty() || line.starts_with('#') {
                continue;
            }
            if line.starts_with("config") {
                cfg = Config::parse_line(line);
            } else if let Some(rest) = line.strip_prefix("extra ") {
                ext.push((Op::parse_line(rest).ok_or_else(|| format!("cannot parse `{}`", line))?, false));
            } else {
                ext.push((Op::parse_line(line).ok_or_else(|| format!("cannot parse `{}`", line))?, true));
            }
        }
        let cfg = cfg.ok_or_else(|| "no config line".to_string())?;
        let base: Vec<Op> = ext.iter().filter(|x| x.1).map(|x| x.0).collect();
        Ok(compare(&cfg, &base, &ext).map(|x| x.1))
    }
}
