//! E2: concurrent histories on `sync::Cache`.
//!
//!   conmon --mode baton   small programs under the serialized random scheduler
//!   conmon --mode park    contention programs: a maintainer is parked while others fill the queue
//!   conmon --mode stress  the same small programs (and larger ones) free-running with injected delays
//!   conmon --mode burst1  single-threaded un-synced bursts in both housekeeping regimes
//!   conmon --mode burstn  multi-threaded un-synced insert bursts (overshoot bound)
//!   conmon --mode iter    writers updating a fixed key set beside iterating threads
//!   conmon --replay file

use mini_moka::sync::ConcurrentCacheExt;
use mini_moka::verif::{MockClock, Point};
use mmv::cut::{build_sync, convert, SCache, Snap};
use mmv::hist::{Config, Density, Kind};
use mmv::json::Json;
use mmv::monitor::{install_panic_hook, structural_errors, take_panic, Violation};
use mmv::report::{Args, Report};
use mmv::rng::{Fnv, Rng};
use mmv::sched::{self, Baton, Outcome, Strategy};
use mmv::types::{obj_reset, obj_stats, HashMode, TK, TV};
use std::cell::RefCell;
use std::collections::{BTreeMap, HashMap, HashSet};
use std::sync::atomic::{AtomicBool, AtomicU64, Ordering};
use std::sync::{Arc, Mutex};
use std::time::{Duration, Instant};

const WRITE_LOG_SIZE: usize = mini_moka::verif::constants::WRITE_LOG_SIZE;

// ---------------------------------------------------------------------------------------------
// programs
// ---------------------------------------------------------------------------------------------

#[derive(Clone, Copy, Debug, PartialEq, Eq)]
enum COp {
    Insert { k: u32, w: u32 },
    Get { k: u32 },
    Contains { k: u32 },
    Invalidate { k: u32 },
    /// advances the clock by 1 ns, then calls invalidate_all
    InvalidateAll,
    Sync,
    /// advances the (shared) mock clock
    Advance { ns: u32 },
    /// one complete iteration; every yielded (key, value) is judged like a `get` that spans it
    Iter,
    /// an iterator is created and yields its first item, then the thread ticks the clock and calls
    /// invalidate_all, then drains the iterator (logged as iteration, invalidate_all, iteration)
    IterInv,
}

impl COp {
    fn text(&self) -> String {
        match *self {
            COp::Insert { k, w } => format!("insert {} {}", k, w),
            COp::Get { k } => format!("get {}", k),
            COp::Contains { k } => format!("contains {}", k),
            COp::Invalidate { k } => format!("invalidate {}", k),
            COp::InvalidateAll => "invalidate_all".into(),
            COp::Sync => "sync".into(),
            COp::Advance { ns } => format!("advance {}", ns),
            COp::Iter => "iter".into(),
            COp::IterInv => "iter_inv".into(),
        }
    }
    fn parse(s: &str) -> Option<COp> {
        let mut it = s.split_whitespace();
        let n = it.next()?;
        let mut num = || -> Option<u32> { it.next()?.parse().ok() };
        Some(match n {
            "insert" => COp::Insert { k: num()?, w: num()? },
            "get" => COp::Get { k: num()? },
            "contains" => COp::Contains { k: num()? },
            "invalidate" => COp::Invalidate { k: num()? },
            "invalidate_all" => COp::InvalidateAll,
            "sync" => COp::Sync,
            "advance" => COp::Advance { ns: num()? },
            "iter" => COp::Iter,
            "iter_inv" => COp::IterInv,
            _ => return None,
        })
    }
    fn key(&self) -> Option<u32> {
        match *self {
            COp::Insert { k, .. } | COp::Get { k } | COp::Contains { k } | COp::Invalidate { k } => Some(k),
            _ => None,
        }
    }
}

#[derive(Clone, Debug)]
struct Prog {
    cfg: Config,
    threads: Vec<Vec<COp>>,
    /// The cache has been idle for longer than the periodical-sync interval when the threads
    /// start: operations then queue up without running the maintenance themselves until a
    /// flush point (64 queued operations) is reached; only explicit `sync()` calls run it.
    idle: bool,
}

impl Prog {
    fn text(&self, mode: &str, strategy: &str, sseed: u64) -> String {
        let mut s = format!("# engine conmon\nmode {} strategy {} sseed {}\n{}\n", mode, strategy, sseed, self.cfg.to_line());
        if self.idle {
            s.push_str("idle 1\n");
        }
        for (i, t) in self.threads.iter().enumerate() {
            let ops: Vec<String> = t.iter().map(|o| o.text()).collect();
            s.push_str(&format!("thread {}: {}\n", i, ops.join("; ")));
        }
        s
    }
    fn fingerprint(&self) -> u64 {
        let mut f = Fnv::default();
        f.write_str(&self.text("", "", 0));
        f.0
    }
    fn nops(&self) -> usize {
        self.threads.iter().map(|t| t.len()).sum()
    }
}

fn parse_prog(text: &str) -> Option<(Prog, String, String, u64)> {
    let mut cfg = None;
    let mut threads = Vec::new();
    let (mut mode, mut strategy, mut sseed) = ("baton".to_string(), "uniform".to_string(), 0u64);
    let mut idle = false;
    for line in text.lines() {
        let line = line.trim();
        if line.is_empty() || line.starts_with('#') {
            continue;
        }
        if line.starts_with("mode ") {
            let p: Vec<&str> = line.split_whitespace().collect();
            mode = p.get(1)?.to_string();
            strategy = p.get(3)?.to_string();
            sseed = p.get(5)?.parse().ok()?;
        } else if line.starts_with("config") {
            cfg = Config::parse_line(line);
        } else if line.starts_with("idle") {
            idle = line.split_whitespace().nth(1) == Some("1");
        } else if line.starts_with("thread") {
            let (_, ops) = line.split_once(':')?;
            let mut v = Vec::new();
            for o in ops.split(';') {
                let o = o.trim();
                if !o.is_empty() {
                    v.push(COp::parse(o)?);
                }
            }
            threads.push(v);
        }
    }
    Some((Prog { cfg: cfg?, threads, idle }, mode, strategy, sseed))
}

const HOUR: u64 = 3_600_000_000_000;

fn short_expiry(cfg: &Config) -> bool {
    cfg.ttl.map(|t| t < HOUR).unwrap_or(false) || cfg.tti.map(|t| t < HOUR).unwrap_or(false)
}

fn gen_cfg(rng: &mut Rng, keys: u32) -> Config {
    let cap = match rng.below(8) {
        0 => None,
        6 | 7 => Some(64),
        n => Some(n.min(4)),
    };
    // mostly: expiry configured but an hour away (it must not interfere, only its code paths
    // run); sometimes a few ticks away, with clock advances in the program
    let short = rng.chance(1, 4);
    let dur = |rng: &mut Rng| if short { rng.range(2, 6) } else { HOUR };
    Config {
        kind: Kind::Sync,
        cap,
        weigher: rng.chance(1, 3),
        ttl: if rng.chance(1, 3) { Some(dur(rng)) } else { None },
        tti: if rng.chance(1, 3) { Some(dur(rng)) } else { None },
        hasher: match rng.below(4) {
            0 => HashMode::Identity,
            1 => HashMode::Collide2,
            _ => HashMode::Mix(rng.below(100)),
        },
        density: Density::Sparse,
        keys,
        initial_capacity: None,
    }
}

/// "Disorder": one thread is likely to be overtaken between changing the map and queueing its
/// operation, by a thread that invalidates everything, inserts another key and reads it. The deques
/// then hold entries in another order than their timestamps; with no capacity pressure, whatever
/// is invisible afterwards must be purged by the maintenance, and whatever was written last stays.
fn gen_disorder_prog(rng: &mut Rng) -> Prog {
    let keys = rng.range(2, 3) as u32;
    let mut cfg = gen_cfg(rng, keys);
    cfg.cap = *rng.pick(&[None, Some(64u64)]);
    match rng.below(4) {
        0 => {
            cfg.ttl = Some(HOUR);
            cfg.tti = None;
        }
        1 => {
            cfg.ttl = None;
            cfg.tti = Some(HOUR);
        }
        _ => {}
    }
    let w = |rng: &mut Rng| if cfg.weigher { *rng.pick(&[1u32, 1, 2, 3]) } else { 1 };
    let mut threads = Vec::new();
    let a = rng.below(keys as u64) as u32;
    let b = (a + 1) % keys;
    let mut t1 = vec![COp::Insert { k: a, w: w(rng) }];
    if rng.chance(1, 3) {
        t1.push(COp::Get { k: a });
    }
    threads.push(t1);
    let mut t2 = Vec::new();
    if rng.chance(1, 3) {
        t2.push(COp::Insert { k: b, w: w(rng) });
    }
    t2.push(COp::InvalidateAll);
    t2.push(COp::Insert { k: b, w: w(rng) });
    for _ in 0..rng.range(0, 2) {
        t2.push(match rng.below(8) {
            0 => COp::Iter,
            1 => COp::IterInv,
            _ => COp::Get { k: b },
        });
    }
    if rng.chance(1, 2) {
        t2.push(COp::Sync);
    }
    threads.push(t2);
    if rng.chance(1, 2) {
        let k = rng.below(keys as u64) as u32;
        threads.push(vec![*rng.pick(&[COp::Sync, COp::Get { k }, COp::Invalidate { k }, COp::Insert { k, w: 1 }])]);
    }
    Prog { cfg, threads, idle: rng.chance(1, 2) }
}

/// "Too big": a fresh value heavier than max_capacity is inserted, invalidated and the key
/// re-inserted with a value that fits, while another thread runs the maintenance (and may be held
/// right before it rejects the heavy candidate). A fresh too-big entry is never admitted, so it
/// puts no pressure on anybody: the re-inserted value must be there in the end.
fn gen_toobig_prog(rng: &mut Rng) -> Prog {
    let keys = rng.range(1, 3) as u32;
    let mut cfg = gen_cfg(rng, keys);
    cfg.weigher = true;
    let cap = *rng.pick(&[4u64, 8, 64]);
    cfg.cap = Some(cap);
    let big = (cap + rng.range(1, 40)) as u32;
    let k = rng.below(keys as u64) as u32;
    let mut threads = Vec::new();
    let mut tw = Vec::new();
    if rng.chance(1, 3) {
        tw.push(COp::Insert { k, w: 1 });
        tw.push(COp::Invalidate { k });
    }
    tw.push(COp::Insert { k, w: big });
    tw.push(COp::Invalidate { k });
    tw.push(COp::Insert { k, w: 1 });
    if rng.chance(1, 3) {
        tw.push(COp::Get { k });
    }
    threads.push(tw);
    threads.push((0..rng.range(1, 3)).map(|_| COp::Sync).collect());
    if keys > 1 && rng.chance(1, 2) {
        let o = (k + 1) % keys;
        threads.push(vec![COp::Insert { k: o, w: 1 }, *rng.pick(&[COp::Sync, COp::Get { k: o }, COp::Insert { k: o, w: 1 }])]);
    }
    Prog { cfg, threads, idle: rng.chance(2, 3) }
}

fn gen_prog(rng: &mut Rng) -> Prog {
    match rng.below(10) {
        0 | 1 => return gen_disorder_prog(rng),
        2 => return gen_toobig_prog(rng),
        _ => {}
    }
    let keys = rng.range(1, 3) as u32;
    let cfg = gen_cfg(rng, keys);
    let nthreads = rng.range(2, 4) as usize;
    let mut threads = Vec::new();
    for _ in 0..nthreads {
        let n = rng.range(1, 6) as usize;
        let mut ops = Vec::new();
        for _ in 0..n {
            let k = rng.below(keys as u64) as u32;
            let w = if cfg.weigher { *rng.pick(&[0u32, 1, 1, 2, 3]) } else { 1 };
            ops.push(match rng.below(if short_expiry(&cfg) { 23 } else { 20 }) {
                0..=7 => COp::Insert { k, w },
                8..=12 => COp::Get { k },
                13 => *rng.pick(&[COp::Iter, COp::Iter, COp::IterInv]),
                14 => COp::Contains { k },
                15 | 16 => COp::Invalidate { k },
                17 => COp::InvalidateAll,
                18 | 19 => COp::Sync,
                _ => COp::Advance { ns: rng.range(1, 3) as u32 },
            });
        }
        threads.push(ops);
    }
    Prog { cfg, threads, idle: rng.chance(1, 4) }
}

// ---------------------------------------------------------------------------------------------
// execution + history
// ---------------------------------------------------------------------------------------------

#[derive(Clone, Debug)]
struct Ev {
    tid: usize,
    op: COp,
    vid: u64,
    call: u64,
    ret: u64,
    /// get: Some(vid) / None; contains: Some(1) / None
    result: Option<u64>,
    clock_call: u64,
    clock_ret: u64,
    done: bool,
    /// iter: what was yielded
    items: Vec<(u32, u64)>,
}

static STAMP: AtomicU64 = AtomicU64::new(1);

fn stamp() -> u64 {
    STAMP.fetch_add(1, Ordering::SeqCst)
}

struct Shared {
    cache: SCache,
    clock: MockClock,
    base: Instant,
}

impl Shared {
    fn now(&self) -> u64 {
        self.clock.now().duration_since(self.base).as_nanos() as u64
    }
    fn snapshot(&self) -> Snap {
        convert(self.cache.verif_snapshot(|k| k.id as u64, |v| v.vid), self.base)
    }
}

thread_local! {
    /// set while this thread holds a guard of the hash map across library calls: the serialized
    /// scheduler must not hand the baton to a thread that would block on that guard
    static NO_SWITCH: std::cell::Cell<bool> = const { std::cell::Cell::new(false) };
}

fn exec_iter_inv(sh: &Shared, tid: usize, log: &mut Vec<Ev>) {
    let blank = |op: COp| Ev { tid, op, vid: 0, call: 0, ret: 0, result: None, clock_call: sh.now(), clock_ret: 0, done: false, items: Vec::new() };
    NO_SWITCH.with(|c| c.set(true));
    let mut first = blank(COp::Iter);
    first.call = stamp();
    let mut it = sh.cache.iter();
    if let Some(e) = it.next() {
        first.items.push((e.key().id, e.value().vid));
    }
    first.ret = stamp();
    first.clock_ret = sh.now();
    first.done = true;
    log.push(first);
    let mut inv = blank(COp::InvalidateAll);
    sh.clock.advance(Duration::from_nanos(1));
    inv.clock_call = sh.now();
    inv.call = stamp();
    log.push(inv.clone());
    let idx = log.len() - 1;
    sh.cache.invalidate_all();
    inv.ret = stamp();
    inv.clock_ret = sh.now();
    inv.done = true;
    log[idx] = inv;
    let mut rest = blank(COp::Iter);
    rest.call = stamp();
    rest.items = it.map(|e| (e.key().id, e.value().vid)).collect();
    rest.ret = stamp();
    rest.clock_ret = sh.now();
    rest.done = true;
    log.push(rest);
    NO_SWITCH.with(|c| c.set(false));
}

fn exec_op(sh: &Shared, tid: usize, counter: &mut u64, op: COp, log: &mut Vec<Ev>) {
    if op == COp::IterInv {
        return exec_iter_inv(sh, tid, log);
    }
    let mut ev = Ev { tid, op, vid: 0, call: 0, ret: 0, result: None, clock_call: sh.now(), clock_ret: 0, done: false, items: Vec::new() };
    if let COp::Insert { .. } = op {
        *counter += 1;
        ev.vid = (tid as u64 + 1) * 1_000_000 + *counter;
    }
    ev.call = stamp();
    log.push(ev.clone());
    let idx = log.len() - 1;
    match op {
        COp::Insert { k, w } => sh.cache.insert(TK::new(k), TV::new(ev.vid, w)),
        COp::Get { k } => ev.result = sh.cache.get(&TK::probe(k)).map(|v| v.vid),
        COp::Contains { k } => ev.result = if sh.cache.contains_key(&TK::probe(k)) { Some(1) } else { None },
        COp::Invalidate { k } => sh.cache.invalidate(&TK::probe(k)),
        COp::InvalidateAll => {
            sh.clock.advance(Duration::from_nanos(1));
            ev.clock_call = sh.now();
            sh.cache.invalidate_all();
        }
        COp::Sync => {
            sh.cache.sync();
            // what the explicit maintenance run left in the write queue (judged against the writes
            // of other threads that overlapped the call, see `check_sync_backlog`)
            ev.result = Some(sh.cache.verif_queue_state().1 as u64);
        }
        COp::Advance { ns } => sh.clock.advance(Duration::from_nanos(ns as u64)),
        COp::Iter => ev.items = sh.cache.iter().map(|e| (e.key().id, e.value().vid)).collect(),
        COp::IterInv => unreachable!(),
    }
    ev.ret = stamp();
    ev.clock_ret = sh.now();
    ev.done = true;
    log[idx] = ev;
}

// ---------------------------------------------------------------------------------------------
// per-key checker: necessary conditions of linearizability (never alarms on a correct cache)
// ---------------------------------------------------------------------------------------------

struct CheckStats {
    overlapping_reads: u64,
    gets_judged: u64,
    iter_items_judged: u64,
    /// observations judged by the idle-deadline rule / of those, made at a clock reading at which
    /// only another thread's get (not the last write) kept the entry alive
    idle_judged: u64,
    idle_kept_alive_by_a_get: u64,
}

fn check_history(evs: &[Ev], final_gets: &[(u32, Option<u64>)], final_stamp: u64, ttl: Option<u64>, tti: Option<u64>) -> (Vec<Violation>, CheckStats) {
    let mut out = Vec::new();
    let contains_who = String::from("contains_key");
    let mut st = CheckStats { overlapping_reads: 0, gets_judged: 0, iter_items_judged: 0, idle_judged: 0, idle_kept_alive_by_a_get: 0 };
    let mut by_key: BTreeMap<u32, Vec<&Ev>> = BTreeMap::new();
    let inv_all: Vec<&Ev> = evs.iter().filter(|e| e.op == COp::InvalidateAll).collect();
    let iters: Vec<&Ev> = evs.iter().filter(|e| e.op == COp::Iter && e.done).collect();
    for e in &iters {
        let mut seen = HashSet::new();
        for (k, _) in &e.items {
            if !seen.insert(*k) {
                out.push(Violation { props: vec!["C16"], sig: "iter:duplicate-key:concurrent".into(), detail: format!("an iteration by thread {} yielded key {} twice", e.tid, k), op_index: 0 });
            }
        }
    }
    for e in evs {
        if let Some(k) = e.op.key() {
            by_key.entry(k).or_default().push(e);
        }
    }
    // Per key: the completed inserts / invalidates sorted by return stamp, with the running
    // maximum of their call stamps: "some op that returned before `before` began after w returned"
    // is then one binary search. invalidate_all needs the clock condition and is scanned.
    let mut index: HashMap<u32, (Vec<u64>, Vec<(u64, usize)>, Vec<&Ev>)> = HashMap::new();
    for (k, kev) in &by_key {
        let mut ws: Vec<&Ev> = kev.iter().copied().filter(|e| e.done && matches!(e.op, COp::Insert { .. } | COp::Invalidate { .. })).collect();
        ws.sort_by_key(|e| e.ret);
        let rets: Vec<u64> = ws.iter().map(|e| e.ret).collect();
        let mut best: Vec<(u64, usize)> = Vec::with_capacity(ws.len());
        let mut cur = (0u64, 0usize);
        for (i, e) in ws.iter().enumerate() {
            if e.call > cur.0 {
                cur = (e.call, i);
            }
            best.push(cur);
        }
        index.insert(*k, (rets, best, ws));
    }
    let mut inv_sorted: Vec<&Ev> = inv_all.iter().copied().filter(|e| e.done).collect();
    inv_sorted.sort_by_key(|e| e.ret);
    let superseded = |w: &Ev, before: u64, key: u32| -> Option<String> {
        // an insert / invalidate of the key, or an effective invalidate_all, that began after
        // w's insert returned and returned before `before`
        if !w.done {
            return None;
        }
        if let Some((rets, best, ws)) = index.get(&key) {
            let n = rets.partition_point(|r| *r < before);
            if n > 0 {
                let (call, i) = best[n - 1];
                if call > w.ret {
                    let x = ws[i];
                    return Some(match x.op {
                        COp::Insert { .. } => format!("insert of value {} by thread {}", x.vid, x.tid),
                        _ => format!("invalidate by thread {}", x.tid),
                    });
                }
            }
        }
        for x in inv_sorted.iter() {
            if x.ret >= before {
                break;
            }
            if x.call > w.ret && x.clock_call > w.clock_ret {
                return Some(format!("invalidate_all by thread {} at clock {}", x.tid, x.clock_call));
            }
        }
        None
    };
    for (k, kev) in &by_key {
        let writes: HashMap<u64, &Ev> = kev.iter().filter(|e| matches!(e.op, COp::Insert { .. })).map(|e| (e.vid, *e)).collect();
        // per reader: last counter seen per writer
        let mut last_seen: HashMap<(usize, u64), u64> = HashMap::new();
        let mut reads: Vec<(&Ev, Option<u64>, u64, String, bool)> = Vec::new();
        for e in kev.iter().filter(|e| matches!(e.op, COp::Get { .. }) && e.done) {
            reads.push((e, e.result, e.call, format!("get by thread {}", e.tid), false));
        }
        for e in iters.iter() {
            for (_, v) in e.items.iter().filter(|(ik, _)| ik == k) {
                reads.push((e, Some(*v), e.call, format!("iteration by thread {}", e.tid), true));
            }
        }
        reads.sort_by_key(|r| r.0.call);
        if let Some(tti) = tti {
            // Idle deadline (C06). Whatever the cache compares with the deadline is the stamp of an
            // insert of the key or of a successful get of the key (any value: an update shares the
            // timestamps) that began before the observation returned; a stamp is read inside its call,
            // so it is at most the clock reading at that call's return (unknown = infinite for a call
            // that had not returned). An observation of a value at clock reading c is legitimate only
            // if one of those stamps is > c - tti. Gets justify each other, so the rule is a least
            // fixpoint: inserts justify unconditionally; a get justifies only once it is justified.
            // (cand: (call, ret, clock_call, clock_ret, is_get))
            let mut just: Vec<(u64, u64)> = kev // (call stamp, upper bound of its time stamp)
                .iter()
                .filter(|e| matches!(e.op, COp::Insert { .. }))
                .map(|e| (e.call, if e.done { e.clock_ret } else { u64::MAX }))
                .collect();
            let mut open: Vec<(&Ev, u64, bool, &String)> = Vec::new(); // (event, value, can justify others, who)
            for (e, res, _, who, is_iter) in &reads {
                if let Some(v) = res {
                    open.push((e, *v, !*is_iter, who));
                }
            }
            for e in kev.iter().filter(|e| matches!(e.op, COp::Contains { .. }) && e.done && e.result.is_some()) {
                // contains_key never counts as an access, but it must not see an idle entry either
                open.push((e, 0, false, &contains_who));
            }
            let n_open = open.len();
            st.idle_judged += n_open as u64;
            let by_write_only: HashSet<usize> = {
                let mut j = just.clone();
                j.sort();
                let mut pm = Vec::with_capacity(j.len());
                let mut m = 0u64;
                for x in &j {
                    m = m.max(x.1);
                    pm.push(m);
                }
                open.iter()
                    .enumerate()
                    .filter(|(_, o)| {
                        let n = j.partition_point(|x| x.0 < o.0.ret);
                        n > 0 && o.0.clock_call < pm[n - 1].saturating_add(tti)
                    })
                    .map(|(i, _)| i)
                    .collect()
            };
            let mut rounds = 0;
            loop {
                rounds += 1;
                just.sort();
                let mut pm = Vec::with_capacity(just.len());
                let mut m = 0u64;
                for x in &just {
                    m = m.max(x.1);
                    pm.push(m);
                }
                let mut still = Vec::new();
                let mut added: Vec<(u64, u64)> = Vec::new();
                for o in open.into_iter() {
                    let n = just.partition_point(|x| x.0 < o.0.ret);
                    let ok = n > 0 && o.0.clock_call < pm[n - 1].saturating_add(tti);
                    if ok {
                        if o.2 {
                            added.push((o.0.call, o.0.clock_ret));
                        }
                    } else {
                        still.push(o);
                    }
                }
                let progressed = !added.is_empty();
                just.extend(added);
                open = still;
                if !progressed || open.is_empty() || rounds > 200 {
                    break;
                }
            }
            st.idle_kept_alive_by_a_get += n_open.saturating_sub(by_write_only.len()).saturating_sub(open.len()) as u64;
            if rounds <= 200 {
                for (e, v, is_get, who) in open.iter().take(3) {
                    out.push(Violation {
                        props: if e.op == COp::Iter { vec!["C16", "C06"] } else if *is_get { vec!["C06", "C02"] } else { vec!["C06"] },
                        sig: "concurrent:tti-expired-value".into(),
                        detail: format!(
                            "{} of key {} at clock {} observed the entry (value {}) although every insert of the key and every justified get of it that began before the observation returned was stamped at or before clock {} - time_to_idle {}",
                            who, k, e.clock_call, v, e.clock_call, tti
                        ),
                        op_index: 0,
                    });
                }
            }
        }
        for (e, res, begin, who, is_iter) in &reads {
            st.gets_judged += 1;
            if *is_iter {
                st.iter_items_judged += 1;
            }
            if kev.len() <= 2000 && kev.iter().any(|w| !matches!(w.op, COp::Get { .. } | COp::Contains { .. }) && w.call < e.ret && (!w.done || w.ret > e.call)) {
                st.overlapping_reads += 1;
            }
            if let Some(v) = res {
                match writes.get(v) {
                    None => out.push(Violation {
                        props: if *is_iter { vec!["C16", "C01"] } else { vec!["C02", "C01"] },
                        sig: "concurrent:phantom-value".into(),
                        detail: format!("{} of key {} returned {}, which nobody wrote to it", who, k, v),
                        op_index: 0,
                    }),
                    Some(w) => {
                        if w.call > e.ret {
                            out.push(Violation {
                                props: if *is_iter { vec!["C16"] } else { vec!["C02"] },
                                sig: "concurrent:future-value".into(),
                                detail: format!("{} of key {} returned {} before its insert began", who, k, v),
                                op_index: 0,
                            });
                        }
                        if let (Some(ttl), true) = (ttl, w.done) {
                            // the write was stamped no later than the clock at its return, the get read
                            // the clock no earlier than at its call
                            if e.clock_call >= w.clock_ret.saturating_add(ttl) {
                                out.push(Violation {
                                    props: if *is_iter { vec!["C16", "C05"] } else { vec!["C05", "C02"] },
                                    sig: "concurrent:ttl-expired-value".into(),
                                    detail: format!("{} of key {} at clock {} returned {} written at clock <= {} with time_to_live {}", who, k, e.clock_call, v, w.clock_ret, ttl),
                                    op_index: 0,
                                });
                            }
                        }
                        if let Some(by) = superseded(w, *begin, *k) {
                            // C01 in its concurrent reading: not the latest live value
                            let mut props = if *is_iter { vec!["C16", "C01"] } else { vec!["C02", "C01"] };
                            if by.starts_with("invalidate") {
                                props.push("C07");
                            }
                            out.push(Violation {
                                props,
                                sig: format!("concurrent:stale-value:{}", by.split_whitespace().next().unwrap_or("")),
                                detail: format!("{} of key {} returned {} although it had been superseded by a completed {} before it began", who, k, v, by),
                                op_index: 0,
                            });
                        }
                        let writer = v / 1_000_000;
                        let c = v % 1_000_000;
                        let ent = last_seen.entry((e.tid, writer)).or_insert(0);
                        if c < *ent {
                            out.push(Violation {
                                props: if *is_iter { vec!["C16"] } else { vec!["C02"] },
                                sig: "concurrent:values-went-backwards".into(),
                                detail: format!("thread {} saw value #{} of writer {} for key {} after it had seen #{}", e.tid, c, writer, k, *ent),
                                op_index: 0,
                            });
                        }
                        *ent = (*ent).max(c);
                    }
                }
            }
        }
    }
    for (k, res) in final_gets {
        if let Some(v) = res {
            let kev: Vec<&Ev> = by_key.get(k).cloned().unwrap_or_default();
            match kev.iter().find(|e| e.vid == *v && matches!(e.op, COp::Insert { .. })) {
                None => out.push(Violation { props: vec!["C02", "C01"], sig: "concurrent:final-phantom".into(), detail: format!("after all threads stopped key {} holds {}, which nobody wrote", k, v), op_index: 0 }),
                Some(w) => {
                    if let Some(by) = superseded(w, final_stamp, *k) {
                        let mut props = vec!["C02"];
                        if by.starts_with("invalidate") {
                            props.push("C07");
                        }
                        out.push(Violation {
                            props,
                            sig: format!("concurrent:final-not-last-write:{}", by.split_whitespace().next().unwrap_or("")),
                            detail: format!("after all threads stopped key {} holds {}, which had been superseded by a completed {}", k, v, by),
                            op_index: 0,
                        });
                    }
                }
            }
        }
    }
    (out, st)
}

/// An explicit `sync()` takes the maintenance lock and then applies every write operation that is in
/// the queue at that moment, so everything queued by calls that had returned before it began is
/// applied when it returns. What is left in the queue right after it returned can only stem from
/// inserts / invalidates of other threads that overlapped the call (each queues at most one
/// operation). More than that means that maintenance ran and left replaced or invalidated entries
/// (C11), and the counters (C10), behind.
fn check_sync_backlog(evs: &[Ev], stats: &mut mmv::monitor::Stats) -> Vec<Violation> {
    let mut out = Vec::new();
    let writes: Vec<&Ev> = evs.iter().filter(|e| matches!(e.op, COp::Insert { .. } | COp::Invalidate { .. })).collect();
    let mut calls: Vec<u64> = writes.iter().map(|e| e.call).collect();
    let mut rets: Vec<u64> = writes.iter().filter(|e| e.done).map(|e| e.ret).collect();
    calls.sort_unstable();
    rets.sort_unstable();
    for s in evs.iter().filter(|e| e.op == COp::Sync && e.done) {
        stats.inc("explicit_syncs_judged");
        let left = s.result.unwrap_or(0);
        if left == 0 {
            continue;
        }
        stats.inc("explicit_syncs_with_overlapping_writes_left_queued");
        let began_before_return = calls.partition_point(|c| *c < s.ret) as u64;
        let returned_before_call = rets.partition_point(|r| *r <= s.call) as u64;
        let overlapping = began_before_return - returned_before_call;
        if left > overlapping {
            out.push(Violation {
                props: vec!["C11", "C10", "C09"],
                sig: "sync-left-queued-writes".into(),
                detail: format!(
                    "sync() by thread {} returned with {} write operations still queued although only {} inserts/invalidates of other threads overlapped the call",
                    s.tid, left, overlapping
                ),
                op_index: 0,
            });
            break;
        }
    }
    out
}

// ---------------------------------------------------------------------------------------------
// quiescence monitors (after join + sync)
// ---------------------------------------------------------------------------------------------

fn fs3_predicate(s: &Snap, key: u32, has_ttl: bool) -> Option<&'static str> {
    let e = s.entry(key)?;
    let ao = mmv::monitor::fs3_blocked(s, e, true);
    if !has_ttl && ao {
        Some(mmv::monitor::F_S3_SIG)
    } else if has_ttl && ao && mmv::monitor::wo_blocked(s, e) {
        Some(mmv::monitor::F_S3W_SIG)
    } else {
        None
    }
}

fn quiescence_checks(sh: &Shared, cfg: &Config, keys: u32, stats: &mut mmv::monitor::Stats, refill: bool) -> Vec<Violation> {
    let mut out = Vec::new();
    let (_, _, running) = sh.cache.verif_queue_state();
    if running {
        out.push(Violation { props: vec!["C09"], sig: "maintenance-flag-stuck".into(), detail: "all threads have stopped but the maintenance flag is still set: maintenance will never run again".into(), op_index: 0 });
        return out; // sync() below would still work, but inserts would spin: stop here
    }
    sh.cache.sync();
    // nothing else runs: one explicit maintenance run applies everything that was queued
    let (r1, w1, _) = sh.cache.verif_queue_state();
    if r1 != 0 || w1 != 0 {
        out.push(Violation { props: vec!["C09", "C10", "C11"], sig: "queues-not-drained-by-sync".into(), detail: format!("after all threads stopped and one sync(): {} reads and {} writes still queued", r1, w1), op_index: 0 });
    }
    sh.cache.sync();
    let s = sh.snapshot();
    stats.inc("quiescence_checks");
    if (s.rlen != 0 || s.wlen != 0) && out.is_empty() {
        out.push(Violation { props: vec!["C09", "C10", "C11"], sig: "queues-not-drained-by-sync".into(), detail: format!("after sync(): {} reads and {} writes still queued", s.rlen, s.wlen), op_index: 0 });
    }
    for (code, msg) in structural_errors(&s, true, cfg.ttl.is_some()) {
        out.push(Violation { props: vec!["C08", "C11", "C10"], sig: format!("structure:{}", code), detail: msg, op_index: 0 });
    }
    let n = s.entries.len() as u64;
    let wsum: u64 = s.entries.iter().map(|e| e.weight as u64).sum();
    if s.entry_count != n {
        out.push(Violation { props: vec!["C10"], sig: "counters:entry_count:concurrent".into(), detail: format!("after join + sync: entry_count() = {}, {} entries held", s.entry_count, n), op_index: 0 });
    }
    if s.weighted_size != wsum {
        // too high: the cache refuses entries although it has room (C03); too low: it will grow past
        // its capacity (C04)
        let props = if s.weighted_size > wsum { vec!["C10", "C03"] } else { vec!["C10", "C04"] };
        out.push(Violation { props, sig: "counters:weighted_size:concurrent".into(), detail: format!("after join + sync: weighted_size() = {}, held entries weigh {}", s.weighted_size, wsum), op_index: 0 });
    }
    if let Some(cap) = cfg.cap {
        if wsum > cap {
            out.push(Violation { props: vec!["C04"], sig: "capacity:resident-weight-over-max:concurrent".into(), detail: format!("after join + sync: held weight {} > max_capacity {}", wsum, cap), op_index: 0 });
        }
    }
    // held but invisible entries (no expiry can fire here: deadlines are an hour away)
    let now_q = sh.now();
    for e in &s.entries {
        if !sh.cache.contains_key(&TK::probe(e.key)) {
            let expired = cfg.ttl.map(|t| e.lm.map(|x| x.saturating_add(t) <= now_q).unwrap_or(false)).unwrap_or(false)
                || cfg.tti.map(|t| e.la.map(|x| x.saturating_add(t) <= now_q).unwrap_or(false)).unwrap_or(false);
            if expired {
                // passed its deadline: invisible by right (whether maintenance released it is C11's
                // sequential business)
                continue;
            }
            match fs3_predicate(&s, e.key, cfg.ttl.is_some()) {
                Some(sig) => out.push(Violation { props: vec!["C10", "C11"], sig: sig.into(), detail: format!("after join + sync: key {} is held and counted but invisible (invalidate_all)", e.key), op_index: 0 }),
                _ => out.push(Violation {
                    props: vec!["C10", "C11", "C07"],
                    sig: "held:invisible-entry-after-maintenance:concurrent".into(),
                    detail: format!("after join + sync: key {} (value {}) is held and counted but invisible (lm {:?}, la {:?}, valid_after {:?})", e.key, e.vid, e.lm, e.la, s.valid_after),
                    op_index: 0,
                }),
            }
        }
    }
    if std::env::var("MMV_DEBUG").is_ok() && !out.is_empty() {
        eprintln!("snapshot at quiescence: {:#?}", s);
    }
    let os = obj_stats();
    if os.double_drops > 0 {
        out.push(Violation { props: vec!["C11", "C08"], sig: "objects:double-drop".into(), detail: format!("{} object(s) dropped twice", os.double_drops), op_index: 0 });
    }
    if os.live_keys != n as i64 || os.live_vals != n as i64 {
        out.push(Violation { props: vec!["C11"], sig: "objects:live-count:concurrent".into(), detail: format!("after join + sync: {} entries held, {} key objects and {} value objects alive", n, os.live_keys, os.live_vals), op_index: 0 });
    }
    // C03 (d): refill probe
    if refill && out.is_empty() {
        if let Some(cap) = cfg.cap {
            let cap = cap.min(64);
            for k in 0..keys {
                sh.cache.invalidate(&TK::probe(k));
            }
            sh.cache.sync();
            let s2 = sh.snapshot();
            if !s2.entries.is_empty() || s2.entry_count != 0 || s2.weighted_size != 0 {
                out.push(Violation {
                    props: vec!["C10", "C03"],
                    sig: "refill:cache-not-empty-after-invalidating-every-key".into(),
                    detail: format!("after invalidating every key and sync(): {} entries held, entry_count {} weighted_size {}", s2.entries.len(), s2.entry_count, s2.weighted_size),
                    op_index: 0,
                });
            }
            let mut lost = Vec::new();
            for i in 0..cap {
                let k = 1000 + i as u32;
                sh.cache.insert(TK::new(k), TV::new(9_000_000 + i, 1));
                sh.cache.sync();
            }
            for i in 0..cap {
                let k = 1000 + i as u32;
                if sh.cache.get(&TK::probe(k)).is_none() {
                    lost.push(k);
                }
            }
            stats.inc("refills_performed");
            stats.add("refill_inserts", cap);
            let s3 = sh.snapshot();
            let held: u64 = s3.entries.iter().map(|e| e.weight as u64).sum();
            if let Some(c) = cfg.cap {
                if held > c {
                    out.push(Violation {
                        props: vec!["C04"],
                        sig: "refill:resident-weight-over-max".into(),
                        detail: format!("after the refill: held weight {} > max_capacity {} (weighted_size() = {})", held, c, s3.weighted_size),
                        op_index: 0,
                    });
                }
            }
            if !lost.is_empty() {
                out.push(Violation {
                    props: vec!["C03"],
                    sig: "refill:fresh-unit-keys-lost".into(),
                    detail: format!("after the threads quiesced and every key was invalidated, inserting {} fresh unit-weight keys one by one (with sync) lost {:?}", cap, lost),
                    op_index: 0,
                });
            }
        }
    }
    out
}

// ---------------------------------------------------------------------------------------------
// running one program
// ---------------------------------------------------------------------------------------------

#[derive(Default)]
struct RunOut {
    violations: Vec<Violation>,
    trace_hash: u64,
    hung: bool,
    overlapping_reads: u64,
    nested_maintenance: bool,
    steps: u64,
    backoffs: u64,
    max_retries: u32,
    parks: u64,
}

thread_local! {
    static DELAY_RNG: RefCell<Option<Rng>> = const { RefCell::new(None) };
}

static NESTED_MAINT: AtomicBool = AtomicBool::new(false);
static EVSEQ: AtomicU64 = AtomicU64::new(0);
static EVHASH: Mutex<Vec<(u64, u8, u8)>> = Mutex::new(Vec::new());
static MAX_RETRIES: AtomicU64 = AtomicU64::new(0);
static BACKOFFS: AtomicU64 = AtomicU64::new(0);
static SYNC_RUNS: AtomicU64 = AtomicU64::new(0);
/// wall-clock watchdog per run (inconclusive when it fires); interpreters need far more
static WATCHDOG_SECS: AtomicU64 = AtomicU64::new(30);

fn point_code(p: Point) -> u8 {
    match p {
        Point::InsertAfterMap => 1,
        Point::InvalidateAfterMap => 2,
        Point::GetAfterMap => 3,
        Point::InvalidateAllBefore => 4,
        Point::InvalidateAllAfter => 5,
        Point::InvalidateAllMid => 22,
        Point::MaintenanceLoopIter => 23,
        Point::WriteBeforeSend => 6,
        Point::WriteBackoff(_) => 7,
        Point::TrySyncBeforeCas => 8,
        Point::TrySyncCasFailed => 9,
        Point::TrySyncAcquired => 10,
        Point::TrySyncBeforeRelease => 11,
        Point::TrySyncReleased => 12,
        Point::SyncBeforeLock => 13,
        Point::SyncLocked => 14,
        Point::SyncAfterReads => 15,
        Point::SyncAfterWrites => 16,
        Point::SyncAfterExpire => 17,
        Point::SyncAfterEvict => 18,
        Point::SyncUnlocked => 19,
        Point::UpsertBeforeVictims => 20,
        Point::UpsertBeforeReject => 21,
        Point::UpsertNoRoom => 24,
    }
}

fn common_hook(p: Point) {
    match p {
        Point::WriteBackoff(r) => {
            BACKOFFS.fetch_add(1, Ordering::Relaxed);
            MAX_RETRIES.fetch_max(r as u64, Ordering::Relaxed);
        }
        Point::SyncLocked => {
            SYNC_RUNS.fetch_add(1, Ordering::Relaxed);
        }
        Point::TrySyncAcquired => NESTED_MAINT.store(true, Ordering::Relaxed),
        _ => {}
    }
}

fn run_program(prog: &Prog, mode: &str, strategy: Strategy, sseed: u64, stats: &mut mmv::monitor::Stats, keep_trace: bool) -> RunOut {
    // full-speed contention programs: in a third of the runs every V::clone takes 20-60 us, which keeps
    // the shard lock of an insert (or the map reference of a get) held that long
    mmv::types::set_clone_spin_us(if mode == "chase" && sseed % 3 == 0 { 20 + (sseed / 3) % 41 } else { 0 });
    if mode == "chase" && sseed % 3 == 0 {
        stats.inc("runs_with_slow_value_clone");
    }
    obj_reset();
    let cache = build_sync(&prog.cfg);
    let clock = cache.verif_install_mock_clock();
    let base = clock.now();
    if prog.idle {
        clock.advance(Duration::from_millis(2 * mini_moka::verif::constants::PERIODICAL_SYNC_INTERVAL_MILLIS));
    }
    let sh = Arc::new(Shared { cache, clock, base });
    let n = prog.threads.len();
    let logs: Arc<Mutex<Vec<Vec<Ev>>>> = Arc::new(Mutex::new(vec![Vec::new(); n]));
    NESTED_MAINT.store(false, Ordering::Relaxed);
    BACKOFFS.store(0, Ordering::Relaxed);
    MAX_RETRIES.store(0, Ordering::Relaxed);
    let mut out = RunOut::default();

    let baton = if mode == "baton" || mode == "park" {
        let budget = 20_000 + 4000 * prog.nops() as u64;
        let b = Baton::new(n, sseed, strategy, budget, keep_trace);
        let b2 = Arc::clone(&b);
        mini_moka::verif::set_switch_hook(Some(Arc::new(move |p| {
            common_hook(p);
            if !NO_SWITCH.with(|c| c.get()) {
                b2.at(p)
            }
        })));
        Some(b)
    } else {
        EVHASH.lock().unwrap().clear();
        EVSEQ.store(0, Ordering::SeqCst);
        // chase: full speed, no delays. stress: 1/4 .. 4/4 of the points get a delay
        let p_inject = if mode == "chase" { 0 } else { 1 + sseed % 4 };
        mini_moka::verif::set_switch_hook(Some(Arc::new(move |p| {
            common_hook(p);
            let t = sched::tid();
            if t == usize::MAX {
                return;
            }
            let seq = EVSEQ.fetch_add(1, Ordering::SeqCst);
            if seq < 4000 {
                EVHASH.lock().unwrap().push((seq, t as u8, point_code(p)));
            }
            DELAY_RNG.with(|r| {
                let mut r = r.borrow_mut();
                if let Some(rng) = r.as_mut() {
                    if rng.below(4) < p_inject {
                        match rng.below(10) {
                            0..=4 => std::thread::yield_now(),
                            5..=7 => {
                                for _ in 0..rng.below(2000) {
                                    std::hint::spin_loop();
                                }
                            }
                            8 => std::thread::sleep(Duration::from_micros(rng.below(60))),
                            _ => {
                                // maintenance phase points occasionally get a long delay
                                if matches!(p, Point::SyncAfterReads | Point::SyncAfterWrites | Point::SyncAfterExpire) {
                                    std::thread::sleep(Duration::from_micros(200 + rng.below(800)));
                                } else {
                                    std::thread::sleep(Duration::from_micros(rng.below(200)));
                                }
                            }
                        }
                    }
                }
            });
        })));
        None
    };

    let mut handles = Vec::new();
    let tids: Arc<Mutex<Vec<u32>>> = Arc::new(Mutex::new(Vec::new()));
    for (i, ops) in prog.threads.iter().enumerate() {
        let sh = Arc::clone(&sh);
        let ops = ops.clone();
        let logs = Arc::clone(&logs);
        let baton = baton.clone();
        let tids2 = Arc::clone(&tids);
        let tseed = sseed.wrapping_mul(31).wrapping_add(i as u64);
        handles.push(std::thread::spawn(move || {
            let mut log = Vec::new();
            let mut counter = 0u64;
            if let Some(t) = mmv::report::current_tid() {
                tids2.lock().unwrap().push(t);
            }
            if let Some(b) = &baton {
                b.start(i);
            } else {
                sched::set_tid(i);
                DELAY_RNG.with(|r| *r.borrow_mut() = Some(Rng::new(tseed)));
            }
            let r = std::panic::catch_unwind(std::panic::AssertUnwindSafe(|| {
                for (oi, op) in ops.iter().enumerate() {
                    exec_op(&sh, i, &mut counter, *op, &mut log);
                    if let (Some(b), true) = (&baton, oi + 1 < ops.len()) {
                        b.between_ops();
                    }
                }
            }));
            if let Some(b) = &baton {
                b.finish(i);
            } else {
                sched::set_tid(usize::MAX);
                DELAY_RNG.with(|r| *r.borrow_mut() = None);
            }
            logs.lock().unwrap()[i] = log;
            r.is_ok()
        }));
    }
    // wall-clock watchdog: inconclusive, never a verdict (the logical detectors come first)
    set_current("", true);
    let t0 = Instant::now();
    let mut panicked = false;
    let mut idle = mmv::report::IdleWatch::for_threads(6, Arc::clone(&tids));
    loop {
        if handles.iter().all(|h| h.is_finished()) {
            break;
        }
        if t0.elapsed() > Duration::from_secs(2) && idle.idle() {
            // unfinished threads and no CPU progress at all: everybody is blocked for good
            out.violations.push(Violation {
                props: vec!["C09"],
                sig: "deadlock:all-threads-blocked-without-cpu-progress".into(),
                detail: format!("the worker threads have not finished and for 6 s every one of them was seen blocked (kernel state S/D, never runnable) and they consumed no CPU time: every thread is blocked inside a call (outside the instrumented switch points) and nobody is left to unblock them [{}]", mmv::report::thread_diagnostics(&idle.watched())),
                op_index: 0,
            });
            out.hung = true;
            break;
        }
        if let Some(b) = &baton {
            if b.outcome() != Outcome::Completed && t0.elapsed() > Duration::from_millis(300) {
                // logical deadlock / livelock was detected and the threads do not come back
                out.hung = true;
                break;
            }
        }
        if t0.elapsed() > Duration::from_secs(WATCHDOG_SECS.load(Ordering::Relaxed)) {
            out.hung = true;
            break;
        }
        std::thread::sleep(Duration::from_micros(200));
    }
    set_current("", false);
    if !out.hung {
        for h in handles {
            if !h.join().unwrap_or(false) {
                panicked = true;
            }
        }
    }
    mini_moka::verif::set_switch_hook(None);
    if let Some(b) = &baton {
        let bs = b.stats();
        out.trace_hash = bs.trace_hash;
        out.steps = bs.steps;
        out.parks = bs.parks;
        match b.outcome() {
            Outcome::Completed => {}
            Outcome::Deadlock(m) => out.violations.push(Violation { props: vec!["C09"], sig: "scheduler:deadlock".into(), detail: m, op_index: 0 }),
            Outcome::Livelock(m) => out.violations.push(Violation { props: vec!["C09"], sig: "scheduler:livelock".into(), detail: m, op_index: 0 }),
        }
    } else {
        let mut f = Fnv::default();
        for (_, t, p) in EVHASH.lock().unwrap().iter() {
            f.write(&[*t, *p]);
        }
        out.trace_hash = f.0;
    }
    out.backoffs = BACKOFFS.load(Ordering::Relaxed);
    out.max_retries = MAX_RETRIES.load(Ordering::Relaxed) as u32;
    out.nested_maintenance = NESTED_MAINT.load(Ordering::Relaxed);
    if panicked {
        let (loc, msg) = take_panic().unwrap_or_else(|| ("?".into(), "?".into()));
        out.violations.push(Violation { props: vec!["C08"], sig: format!("panic@{}", mmv::monitor::norm_loc(&loc)), detail: format!("a worker thread panicked at {}: {}", loc, msg), op_index: 0 });
        std::mem::forget(sh);
        return out;
    }
    if out.hung {
        if out.violations.is_empty() {
            out.violations.push(Violation { props: vec![], sig: "watchdog".into(), detail: "threads did not finish within the wall-clock watchdog (inconclusive)".into(), op_index: 0 });
        }
        std::mem::forget(sh);
        return out;
    }
    // history check
    let mut evs: Vec<Ev> = logs.lock().unwrap().iter().flatten().cloned().collect();
    evs.sort_by_key(|e| e.call);
    let fstamp = stamp();
    let keys = prog.cfg.keys;
    // final state: after join + sync
    let pre_q = quiescence_checks(&sh, &prog.cfg, keys, stats, false);
    let mut finals = Vec::new();
    for k in 0..keys {
        finals.push((k, sh.cache.get(&TK::probe(k)).map(|v| v.vid)));
    }
    // C03 / C07 / C16, concurrent form: when the last operation on a key is unambiguous (every
    // other operation on it, and every invalidate_all, returned before it began) and it is an insert
    // whose value cannot have expired and cannot have been evicted for capacity, then the value
    // must be there after the threads have stopped, for get and for iteration alike.
    {
        let cfg = &prog.cfg;
        let eff_w = |w: u32| if cfg.weigher { w as u64 } else { 1 };
        let too_big = |w: u32| cfg.cap.map(|c| eff_w(w) > c).unwrap_or(false);
        // A value heavier than max_capacity weighs on the others only when it replaces the value of
        // an admitted entry. When every write to its key is ordered and it comes right after a
        // completed invalidate of the key (or first) and is followed by one (or last), it is the
        // only value its entry ever has: that entry is never admitted and never counted.
        let mut big_are_fresh = true;
        for k in 0..keys {
            let mut ws: Vec<&Ev> = evs.iter().filter(|e| e.op.key() == Some(k) && matches!(e.op, COp::Insert { .. } | COp::Invalidate { .. })).collect();
            if !ws.iter().any(|e| matches!(e.op, COp::Insert { w, .. } if too_big(w))) {
                continue;
            }
            ws.sort_by_key(|e| e.call);
            let ordered = ws.iter().all(|e| e.done) && ws.windows(2).all(|p| p[0].ret < p[1].call);
            let isolated = ws.iter().enumerate().all(|(i, e)| match e.op {
                COp::Insert { w, .. } if too_big(w) => {
                    (i == 0 || matches!(ws[i - 1].op, COp::Invalidate { .. })) && (i + 1 == ws.len() || matches!(ws[i + 1].op, COp::Invalidate { .. }))
                }
                _ => true,
            });
            if !ordered || !isolated {
                big_are_fresh = false;
            }
        }
        let max_w: u64 = evs
            .iter()
            .filter_map(|e| if let COp::Insert { w, .. } = e.op { Some(eff_w(w)) } else { None })
            .filter(|w| !big_are_fresh || cfg.cap.map(|c| *w <= c).unwrap_or(true))
            .max()
            .unwrap_or(1);
        // "No capacity pressure possible" must hold even transiently: while a Remove op is queued
        // behind a later insert of the same key, the invalidated entry and its successor are both
        // counted, so every key can weigh twice for a moment.
        let roomy = cfg.cap.map(|c| c >= 2 * keys as u64 * max_w.max(1)).unwrap_or(true);
        let now_q = sh.now();
        let iter_keys: HashSet<u32> = sh.cache.iter().map(|e| e.key().id).collect();
        for k in 0..keys {
            let mut on_key: Vec<&Ev> = evs.iter().filter(|e| e.done && (e.op.key() == Some(k) && !matches!(e.op, COp::Get { .. } | COp::Contains { .. }) || e.op == COp::InvalidateAll)).collect();
            on_key.sort_by_key(|e| e.call);
            let last = match on_key.last() {
                Some(l) => *l,
                None => continue,
            };
            let unambiguous = on_key.iter().all(|e| std::ptr::eq(*e, last) || e.ret < last.call);
            if !unambiguous || !roomy {
                continue;
            }
            if let COp::Insert { w, .. } = last.op {
                let weight_ok = !cfg.weigher || cfg.cap.map(|c| w as u64 <= c).unwrap_or(true);
                let fresh = cfg.ttl.map(|t| now_q < last.clock_call.saturating_add(t)).unwrap_or(true) && cfg.tti.map(|t| now_q < last.clock_call.saturating_add(t)).unwrap_or(true);
                if !weight_ok || !fresh {
                    continue;
                }
                stats.inc("quiescent_must_live_keys_judged");
                let got = finals.iter().find(|f| f.0 == k).and_then(|f| f.1);
                if got != Some(last.vid) && std::env::var("MMV_DEBUG").is_ok() {
                    for e in &evs {
                        eprintln!("t{} {:<16} vid {} call {} ret {} res {:?} clock {}..{}", e.tid, e.op.text(), e.vid, e.call, e.ret, e.result, e.clock_call, e.clock_ret);
                    }
                    eprintln!("snapshot: {:#?}", sh.snapshot());
                }
                if got != Some(last.vid) {
                    out.violations.push(Violation {
                        props: vec!["C03", "C07", "C02", "C16"],
                        sig: "concurrent:live-value-lost".into(),
                        detail: format!(
                            "after all threads stopped, key {} must hold {} (its last, unambiguous operation; inserted at clock >= {}, now {}, no capacity pressure possible) but get returned {:?}",
                            k, last.vid, last.clock_call, now_q, got
                        ),
                        op_index: 0,
                    });
                } else if !iter_keys.contains(&k) {
                    out.violations.push(Violation {
                        props: vec!["C16", "C03"],
                        sig: "concurrent:live-value-missing-from-iteration".into(),
                        detail: format!("after all threads stopped, get returns key {} but iteration does not yield it", k),
                        op_index: 0,
                    });
                }
            }
        }
    }
    let (hv, cs) = check_history(&evs, &finals, fstamp, prog.cfg.ttl, prog.cfg.tti);
    out.violations.extend(check_sync_backlog(&evs, stats));
    out.overlapping_reads = cs.overlapping_reads;
    stats.add("gets_judged", cs.gets_judged);
    stats.add("observations_judged_by_idle_deadline_rule", cs.idle_judged);
    stats.add("observations_kept_alive_only_by_another_get", cs.idle_kept_alive_by_a_get);
    stats.add("iteration_items_judged_against_history", cs.iter_items_judged);
    out.violations.extend(hv);
    out.violations.extend(pre_q);
    if out.violations.is_empty() {
        let v = quiescence_checks(&sh, &prog.cfg, keys, stats, true);
        out.violations.extend(v);
    }
    // drop the cache: everything must be released
    let sh = match Arc::try_unwrap(sh) {
        Ok(s) => s,
        Err(_) => return out,
    };
    drop(sh);
    let os = obj_stats();
    if os.live_keys != 0 || os.live_vals != 0 {
        out.violations.push(Violation { props: vec!["C11"], sig: "objects:alive-after-drop".into(), detail: format!("after dropping the cache: {} keys, {} values alive", os.live_keys, os.live_vals), op_index: 0 });
    }
    out
}

fn parse_strategy(s: &str) -> Strategy {
    match s {
        "uniform" => Strategy::Uniform,
        "sticky" => Strategy::Sticky(4),
        "pct" => Strategy::Pct(3),
        "starve" => Strategy::StarveMaintainer,
        "park" => Strategy::ParkMaintainer(4000),
        _ => Strategy::Uniform,
    }
}

fn wanted(v: &Violation, prop: &str) -> bool {
    prop == "all" || v.props.iter().any(|p| *p == prop)
}

fn record(report: &mut Report, v: &Violation, text: &str, prop: &str, known: &[String], sigs: &mut HashSet<String>) {
    if v.sig == "watchdog" {
        let t = text.replace('\n', " | ");
        report.notes.push(format!("watchdog fired (inconclusive): {}", t.chars().take(400).collect::<String>()));
        report.stats.inc("watchdog_fired");
        return;
    }
    if known.iter().any(|k| *k == v.sig) {
        report.stats.inc("known_finding_hits");
        if wanted(v, prop) && report.known.len() < 10 && sigs.insert(format!("k{}", v.sig)) {
            report.known.push(Report::violation_json(v, text, 0));
        }
        return;
    }
    if wanted(v, prop) {
        report.stats.inc("violating_runs");
        if report.violations.len() < 5 && sigs.insert(v.sig.clone()) {
            report.violations.push(Report::violation_json(v, text, 0));
        }
    } else {
        for p in &v.props {
            *report.other_property_alarms.entry(format!("{}:{}", p, v.sig)).or_insert(0) += 1;
        }
    }
}

// ---------------------------------------------------------------------------------------------
// sentinel: the main thread itself blocks forever (final gets, sync() at quiescence, a solo run)
// ---------------------------------------------------------------------------------------------

/// (text of the program being run, true while a run's own watcher is in charge)
static CURRENT_PROG: Mutex<(String, bool)> = Mutex::new((String::new(), false));

fn set_current(text: &str, run_watched: bool) {
    if let Ok(mut g) = CURRENT_PROG.lock() {
        if !text.is_empty() {
            g.0 = text.to_string();
        }
        g.1 = run_watched;
    }
}

/// Watches the whole process from a background thread. While the worker threads of a run are alive
/// the run's own watcher decides; in every other phase (joining, the final gets, sync() and the
/// snapshots at quiescence, single-threaded solo runs) only the main thread works, and if it is
/// blocked for good (the process consumed no CPU for 10 s) no in-process monitor would ever report it.
fn start_sentinel(out_path: String, prop: String, engine: String) {
    std::thread::spawn(move || {
        // the main thread's kernel id is the process id
        let main_tid: Arc<Mutex<Vec<u32>>> = Arc::new(Mutex::new(vec![std::process::id()]));
        let mut idle = mmv::report::IdleWatch::for_threads(30, Arc::clone(&main_tid));
        loop {
            std::thread::sleep(Duration::from_millis(100));
            let watched = CURRENT_PROG.lock().map(|g| g.1).unwrap_or(false);
            if watched {
                idle = mmv::report::IdleWatch::for_threads(30, Arc::clone(&main_tid));
                continue;
            }
            if idle.idle() {
                let text = CURRENT_PROG.lock().map(|g| g.0.clone()).unwrap_or_default();
                let mut report = Report { engine, ..Default::default() };
                report.evaluations = 1;
                report.notes.push("shard stopped: a call on the main thread blocked forever; the counters of this shard are lost".into());
                let v = Violation {
                    props: vec!["C09", "C08"],
                    sig: "progress:call-blocks-forever".into(),
                    detail: format!("after the worker threads had finished (or in a single-threaded run) a call of the main thread into the cache has not returned: for 30 s the main thread was seen blocked (kernel state S/D, never runnable) and consumed no CPU time; it is blocked inside the call and no other thread exists to unblock it [{}]", {
                        let all: Vec<u32> = std::fs::read_dir("/proc/self/task").map(|d| d.filter_map(|e| e.ok().and_then(|e| e.file_name().to_str().and_then(|s| s.parse().ok()))).collect()).unwrap_or_default();
                        mmv::report::thread_diagnostics(&all)
                    }),
                    op_index: 0,
                };
                if wanted(&v, &prop) {
                    report.stats.inc("violating_runs");
                    report.violations.push(Report::violation_json(&v, &text, 0));
                } else {
                    report.other_property_alarms.insert(format!("C09:{}", v.sig), 1);
                    report.notes.push("a call blocked forever (C09): this shard could not judge its own property".into());
                    report.stats.inc("watchdog_fired");
                }
                if out_path.is_empty() {
                    println!("{}", report.to_json().dump());
                } else {
                    report.write(&out_path);
                }
                mmv::report::exit_now(0);
            }
        }
    });
}

// ---------------------------------------------------------------------------------------------
// modes
// ---------------------------------------------------------------------------------------------

fn gen_park_prog(rng: &mut Rng) -> Prog {
    let keys = 600;
    let mut cfg = gen_cfg(rng, keys);
    cfg.cap = Some(*rng.pick(&[4u64, 64, 2000]));
    cfg.weigher = false;
    let mut threads = Vec::new();
    // thread 0: a few writes and explicit syncs (a maintainer that can be parked)
    let mut t0 = Vec::new();
    for i in 0..rng.range(2, 6) {
        t0.push(COp::Insert { k: i as u32, w: 1 });
        if rng.chance(1, 2) {
            t0.push(COp::Sync);
        }
    }
    threads.push(t0);
    if rng.chance(1, 3) {
        // readers instead of writers: more than a read log of hits (and misses) while a maintainer
        // may be parked after it has applied the reads
        cfg.tti = Some(HOUR);
        for _ in 0..rng.range(1, 2) {
            let n = mini_moka::verif::constants::READ_LOG_SIZE as u64 + rng.range(1, 60);
            threads.push((0..n).map(|i| COp::Get { k: (i % 7) as u32 }).collect());
        }
        return Prog { cfg, threads, idle: false };
    }
    // "backlog": the writers finish while the maintainer is parked inside a run (their own attempts to
    // run the maintenance fail), then the maintainer runs it explicitly on a queue that holds more
    // than one flush point of operations
    let backlog = rng.chance(1, 2);
    if backlog {
        let t0 = &mut threads[0];
        for i in 0..rng.range(1, 3) {
            t0.push(COp::Sync);
            t0.push(COp::Sync);
            t0.push(COp::Insert { k: 600 - 1 - i as u32, w: 1 });
        }
        t0.push(COp::Sync);
    }
    for t in 0..rng.range(1, 2) {
        let mut v = Vec::new();
        let n = if backlog { rng.range(70, 300) } else { WRITE_LOG_SIZE as u64 + rng.range(1, 40) };
        for i in 0..n {
            let k = 10 + ((t * 300 + i) % 590) as u32;
            v.push(if rng.chance(1, 12) { COp::Invalidate { k } } else { COp::Insert { k, w: 1 } });
        }
        threads.push(v);
    }
    Prog { cfg, threads, idle: false }
}

fn mode_programs(args: &Args, mode: &str) {
    let prop = args.str("prop", "all");
    let known = args.list("known");
    let seed = args.u64("seed", 1);
    let nprog = args.u64("programs", 100);
    let nsched = args.u64("schedules", 10);
    let big_every = args.u64("big-every", 12).max(1);
    let chase_every = args.u64("chase-every", 5).max(1);
    let expiry_every = args.u64("expiry-every", 5).max(1);
    let out_path = args.str("out", "");
    let mut report = Report { engine: format!("conmon-{}", mode), ..Default::default() };
    let mut master = Rng::new(seed ^ 0xC0C0);
    let mut interleavings: HashSet<u64> = HashSet::new();
    let mut new_in_last_tenth = 0u64;
    let total_runs = nprog * nsched;
    let mut run_idx = 0u64;
    let mut sigs = HashSet::new();
    let strategies: &[&str] = if mode == "park" { &["park"] } else { &["uniform", "sticky", "pct", "starve"] };
    'outer: for pi in 0..nprog {
        if report.stats.c.get("violating_runs").copied().unwrap_or(0) >= 50 {
            report.notes.push(format!("stopped after {} programs: 50 runs violated the property", pi));
            break;
        }
        let mut rng = master.fork();
        let prog = if mode == "park" {
            gen_park_prog(&mut rng)
        } else if mode == "chase" && rng.chance(1, expiry_every) {
            gen_expiry_chase_prog(&mut rng, 10)
        } else if mode == "chase" && rng.chance(1, 5) {
            gen_storm_prog(&mut rng, 10)
        } else if mode == "chase" {
            gen_chase_prog(&mut rng, 10)
        } else if mode == "stress" && rng.chance(1, big_every) {
            gen_big_prog(&mut rng)
        } else if mode == "stress" && rng.chance(1, chase_every) {
            gen_chase_prog(&mut rng, 1)
        } else {
            gen_prog(&mut rng)
        };
        let mut nontrivial = false;
        for si in 0..nsched {
            let sname = strategies[(si as usize) % strategies.len()];
            let sseed = rng.next_u64() >> 16;
            set_current(&prog.text(mode, sname, sseed), false);
            let r = run_program(&prog, mode, parse_strategy(sname), sseed, &mut report.stats, false);
            run_idx += 1;
            report.evaluations += 1;
            if interleavings.insert(r.trace_hash ^ prog.fingerprint()) {
                if run_idx * 10 >= total_runs * 9 {
                    new_in_last_tenth += 1;
                }
            }
            report.stats.add("overlapping_read_write_pairs", r.overlapping_reads);
            if r.nested_maintenance {
                report.stats.inc("runs_with_maintenance_nested_in_an_operation");
            }
            if r.overlapping_reads > 0 || r.nested_maintenance {
                nontrivial = true;
            }
            report.stats.add("scheduler_steps", r.steps);
            report.stats.add("backoff_events", r.backoffs);
            report.stats.add("maintainer_parks", r.parks);
            report.stats.max("max_backoff_retries_seen", r.max_retries as u64);
            let text = prog.text(mode, sname, sseed);
            for v in &r.violations {
                record(&mut report, v, &text, &prop, &known, &mut sigs);
            }
            if r.hung {
                // threads of this run may still be alive: this process cannot run further programs
                report.notes.push("shard stopped early: a run did not come back".into());
                break 'outer;
            }
        }
        for p in ["C02", "C07", "C09", "C10", "C11", "C03", "C08", "C04"] {
            if nontrivial || mode == "park" {
                report.distinct.entry(p.to_string()).or_default().push(prog.fingerprint());
            }
        }
        if pi % 17 == 0 && report.samples.len() < 4 {
            report.samples.push(Json::Str(prog.text(mode, "-", 0).replace('\n', " | ")));
        }
    }
    report.stats.add("distinct_interleavings", interleavings.len() as u64);
    report.stats.add("new_interleavings_in_last_tenth_of_runs", new_in_last_tenth);
    report.stats.add("programs", nprog);
    if out_path.is_empty() {
        println!("{}", report.to_json().dump());
    } else {
        report.write(&out_path);
    }
    if report.notes.iter().any(|n| n.starts_with("shard stopped early")) {
        // worker threads of the abandoned run may still be alive
        mmv::report::exit_now(0);
    }
}

/// High-contention "chase": writers keep replacing and invalidating one or two keys while
/// readers keep reading them. Aims at windows *inside* get / insert (between the map lookup and
/// the expiry check), which no switch point may expose because a map guard is held there.
fn gen_chase_prog(rng: &mut Rng, scale: u64) -> Prog {
    let keys = rng.range(1, 2) as u32;
    let mut cfg = gen_cfg(rng, keys);
    cfg.cap = *rng.pick(&[None, Some(4u64), Some(2)]);
    let writers = rng.range(1, 2) as usize;
    let readers = rng.range(2, 4) as usize;
    let mut threads = Vec::new();
    if cfg.weigher {
        cfg.cap = *rng.pick(&[Some(300u64), Some(8), Some(4)]);
        if rng.chance(1, 2) {
            // weight flip: one key keeps changing between a small and a large weight and is
            // invalidated, while another thread runs the maintenance in a loop: aims at the
            // windows inside the application of one queued update
            let mut w = Vec::new();
            for _ in 0..rng.range(30, 80) * scale {
                let k = rng.below(keys as u64) as u32;
                w.push(COp::Insert { k, w: 1 });
                w.push(COp::Insert { k, w: 1 });
                w.push(COp::Insert { k, w: 100 });
                w.push(COp::Invalidate { k });
            }
            let n = w.len() as u64;
            threads.push(w);
            threads.push((0..n).map(|_| COp::Sync).collect());
            if rng.chance(1, 2) {
                threads.push((0..n / 2).map(|_| COp::Sync).collect());
            }
            return Prog { cfg, threads, idle: false };
        }
    }
    for _ in 0..writers {
        let mut ops = Vec::new();
        for _ in 0..rng.range(60, 200) * scale {
            let k = rng.below(keys as u64) as u32;
            // size-aware caches: the same key keeps changing its weight
            let w = if cfg.weigher { *rng.pick(&[1u32, 1, 1, 2, 100]) } else { 1 };
            ops.push(COp::Insert { k, w });
            match rng.below(6) {
                0 | 1 => ops.push(COp::InvalidateAll),
                2 => ops.push(COp::Invalidate { k }),
                _ => {}
            }
        }
        threads.push(ops);
    }
    for _ in 0..readers {
        let mut ops = Vec::new();
        for _ in 0..rng.range(200, 500) * scale {
            ops.push(if rng.chance(1, 16) { COp::Iter } else { COp::Get { k: rng.below(keys as u64) as u32 } });
        }
        threads.push(ops);
    }
    if rng.chance(1, 2) {
        // a thread that keeps running the maintenance explicitly, beside the nested runs
        threads.push((0..rng.range(50, 200) * scale).map(|_| COp::Sync).collect());
    }
    Prog { cfg, threads, idle: false }
}

/// "Expiry chase": the only reason for a value to disappear is its deadline. One or two writers keep
/// re-inserting one or two keys and move the clock by about one expiry period after each insert;
/// readers read at full speed (get, sometimes contains_key / iteration). With time_to_live a get must
/// never return a value written a full period before the get began; with time_to_idle an observation
/// must be justified by an insert or a justified get stamped less than a period before it.
fn gen_expiry_chase_prog(rng: &mut Rng, scale: u64) -> Prog {
    let keys = rng.range(1, 2) as u32;
    let mut cfg = gen_cfg(rng, keys);
    cfg.cap = None;
    cfg.weigher = false;
    let d = *rng.pick(&[2u64, 3, 5, 10, 1000]);
    match rng.below(3) {
        0 => {
            cfg.ttl = Some(d);
            cfg.tti = None;
        }
        1 => {
            cfg.ttl = None;
            cfg.tti = Some(d);
        }
        _ => {
            cfg.ttl = Some(d * 2);
            cfg.tti = Some(d);
        }
    }
    let mut threads = Vec::new();
    // keep-alive variant: the key is written rarely; between two writes only gets (the writer's own
    // and the readers') can keep it alive, in steps of less than one idle period
    let keepalive = cfg.tti.is_some() && rng.chance(1, 2);
    for _ in 0..rng.range(1, 2) {
        let mut ops = Vec::new();
        for i in 0..rng.range(40, 120) * scale {
            let k = rng.below(keys as u64) as u32;
            if !keepalive || i % 8 == 0 {
                ops.push(COp::Insert { k, w: 1 });
            }
            if keepalive || rng.chance(1, 4) {
                ops.push(COp::Get { k });
            }
            if keepalive && rng.chance(1, 3) {
                ops.push(COp::Sync);
            }
            ops.push(COp::Advance { ns: if keepalive && rng.chance(5, 6) { d - 1 } else { match rng.below(4) { 0 => d - 1, 1 => d + 1, _ => d } } as u32 });
        }
        threads.push(ops);
    }
    for _ in 0..rng.range(2, 4) {
        let mut ops = Vec::new();
        for _ in 0..rng.range(200, 500) * scale {
            let k = rng.below(keys as u64) as u32;
            ops.push(match rng.below(16) {
                0 => COp::Iter,
                1 => COp::Contains { k },
                _ => COp::Get { k },
            });
        }
        threads.push(ops);
    }
    if rng.chance(1, 2) {
        threads.push((0..rng.range(50, 200) * scale).map(|_| COp::Sync).collect());
    }
    Prog { cfg, threads, idle: false }
}

/// "Storm": several threads call invalidate_all in tight loops while others insert a key,
/// invalidate everything and read the key back. Aims at windows inside invalidate_all itself.
fn gen_storm_prog(rng: &mut Rng, scale: u64) -> Prog {
    let keys = rng.range(1, 3) as u32;
    let mut cfg = gen_cfg(rng, keys);
    cfg.cap = None;
    cfg.ttl = None;
    cfg.tti = None;
    let mut threads = Vec::new();
    for _ in 0..rng.range(3, 8) {
        threads.push((0..rng.range(30, 80) * scale).map(|_| COp::InvalidateAll).collect());
    }
    for _ in 0..rng.range(2, 4) {
        let mut ops = Vec::new();
        for _ in 0..rng.range(20, 60) * scale {
            let k = rng.below(keys as u64) as u32;
            ops.push(COp::Insert { k, w: 1 });
            ops.push(COp::InvalidateAll);
            ops.push(match rng.below(6) {
                0 | 1 => COp::Iter,
                2 => COp::IterInv,
                _ => COp::Get { k },
            });
        }
        threads.push(ops);
    }
    Prog { cfg, threads, idle: false }
}

fn gen_big_prog(rng: &mut Rng) -> Prog {
    let keys = rng.range(2, 6) as u32;
    let cfg = gen_cfg(rng, keys);
    let nthreads = rng.range(4, 16) as usize;
    let mut threads = Vec::new();
    for _ in 0..nthreads {
        let n = rng.range(50, 400) as usize;
        let mut ops = Vec::new();
        for _ in 0..n {
            let k = rng.below(keys as u64) as u32;
            let w = if cfg.weigher { *rng.pick(&[0u32, 1, 1, 2, 3]) } else { 1 };
            ops.push(match rng.below(40) {
                0..=15 => COp::Insert { k, w },
                16..=29 => COp::Get { k },
                30 => COp::Contains { k },
                31 => *rng.pick(&[COp::Iter, COp::Iter, COp::IterInv]),
                32..=36 => COp::Invalidate { k },
                37 => COp::InvalidateAll,
                _ => COp::Sync,
            });
        }
        threads.push(ops);
    }
    Prog { cfg, threads, idle: false }
}

/// Single-threaded bursts of 10x the write-log size without sync(), in both housekeeping
/// regimes (within / beyond the periodical-sync interval of the clock).
fn mode_burst1(args: &Args) {
    let prop = args.str("prop", "all");
    let known = args.list("known");
    let seed = args.u64("seed", 1);
    let rounds = args.u64("rounds", 20);
    let out_path = args.str("out", "");
    let mut report = Report { engine: "conmon-burst1".into(), ..Default::default() };
    let mut master = Rng::new(seed ^ 0xB0B0);
    let stuck: Arc<Mutex<Option<String>>> = Arc::new(Mutex::new(None));
    let mut sigs = HashSet::new();
    for r in 0..rounds {
        let mut rng = master.fork();
        let mut cfg = gen_cfg(&mut rng, 100_000);
        cfg.cap = *rng.pick(&[None, Some(0u64), Some(1), Some(16), Some(1000), Some(100_000)]);
        let beyond = r % 2 == 1;
        let n_ops = 10 * WRITE_LOG_SIZE as u64;
        obj_reset();
        let cache = build_sync(&cfg);
        let clock = cache.verif_install_mock_clock();
        let base = clock.now();
        let sh = Arc::new(Shared { cache, clock, base });
        if beyond {
            sh.clock.advance(Duration::from_secs(1));
        }
        SYNC_RUNS.store(0, Ordering::SeqCst);
        BACKOFFS.store(0, Ordering::SeqCst);
        MAX_RETRIES.store(0, Ordering::SeqCst);
        let stuck2 = Arc::clone(&stuck);
        mini_moka::verif::set_switch_hook(Some(Arc::new(move |p| {
            common_hook(p);
            if let Point::WriteBackoff(r) = p {
                // one thread only: nobody else can make progress for this op
                if r > 2 {
                    let mut g = stuck2.lock().unwrap();
                    if g.is_none() {
                        *g = Some(format!("retry #{} of one write op at the back-off point although no other thread exists", r));
                    }
                }
            }
        })));
        let sh2 = Arc::clone(&sh);
        let kind = rng.below(3);
        let cfgw = cfg.weigher;
        let mut r2 = rng.fork();
        let done = Arc::new(AtomicU64::new(0));
        let done2 = Arc::clone(&done);
        let max_map = Arc::new(AtomicU64::new(0));
        let max_map2 = Arc::clone(&max_map);
        let h = std::thread::spawn(move || {
            sched::set_tid(0);
            for i in 0..n_ops {
                let k = i as u32;
                match kind {
                    0 => sh2.cache.insert(TK::new(k), TV::new(i + 1, if cfgw { (i % 3) as u32 } else { 1 })),
                    1 => {
                        if r2.chance(1, 4) {
                            sh2.cache.invalidate(&TK::probe(r2.below(i + 1) as u32));
                        } else {
                            sh2.cache.insert(TK::new(k), TV::new(i + 1, 1));
                        }
                    }
                    _ => {
                        if r2.chance(1, 2) {
                            let _ = sh2.cache.get(&TK::probe(r2.below(i + 1) as u32));
                        } else {
                            sh2.cache.insert(TK::new(k % 50), TV::new(i + 1, 1));
                        }
                    }
                }
                max_map2.fetch_max(sh2.cache.verif_map_len() as u64, Ordering::Relaxed);
                done2.fetch_add(1, Ordering::SeqCst);
            }
            sched::set_tid(usize::MAX);
        });
        let t0 = Instant::now();
        let mut hung = false;
        while !h.is_finished() {
            if stuck.lock().unwrap().is_some() || t0.elapsed() > Duration::from_secs(60) {
                hung = true;
                break;
            }
            std::thread::sleep(Duration::from_micros(500));
        }
        report.evaluations += 1;
        let text = format!("# engine conmon\nmode burst1 strategy - sseed {}\n{}\n# {} ops of kind {} without sync(), clock {} the periodical-sync interval\n", seed, cfg.to_line(), n_ops, kind, if beyond { "beyond" } else { "within" });
        report.stats.inc(if beyond { "bursts_beyond_sync_interval" } else { "bursts_within_sync_interval" });
        if hung {
            let why = stuck.lock().unwrap().clone();
            let v = match why {
                Some(w) => Violation { props: vec!["C09"], sig: "burst:write-op-cannot-make-progress".into(), detail: format!("{} (after {} of {} operations; maintenance runs so far: {})", w, done.load(Ordering::SeqCst), n_ops, SYNC_RUNS.load(Ordering::SeqCst)), op_index: 0 },
                None => Violation { props: vec![], sig: "watchdog".into(), detail: "burst did not finish within 60 s".into(), op_index: 0 },
            };
            record(&mut report, &v, &text, &prop, &known, &mut sigs);
            report.notes.push("shard stopped early: a burst did not come back".into());
            break;
        }
        let _ = h.join();
        mini_moka::verif::set_switch_hook(None);
        let runs = SYNC_RUNS.load(Ordering::SeqCst);
        report.stats.add("maintenance_runs_during_bursts", runs);
        report.stats.add("burst_operations", n_ops);
        report.stats.max("max_backoff_retries_seen", MAX_RETRIES.load(Ordering::SeqCst));
        report.stats.add("backoff_events", BACKOFFS.load(Ordering::SeqCst));
        report.distinct.entry("C09".into()).or_default().push(r ^ (seed << 20));
        report.distinct.entry("C04".into()).or_default().push(r ^ (seed << 20));
        if runs == 0 {
            let v = Violation { props: vec!["C09"], sig: "burst:no-maintenance-run".into(), detail: format!("{} un-synced operations and not a single maintenance run", n_ops), op_index: 0 };
            record(&mut report, &v, &text, &prop, &known, &mut sigs);
        }
        // overshoot bound: one inserting thread
        if let Some(cap) = cfg.cap {
            if kind == 0 && !cfg.weigher {
                let bound = cap + WRITE_LOG_SIZE as u64 + 2;
                let seen = max_map.load(Ordering::Relaxed);
                report.stats.inc("burst_overshoot_samples");
                report.stats.max("max_overshoot_over_capacity", seen.saturating_sub(cap));
                if seen > bound {
                    let v = Violation { props: vec!["C04"], sig: "burst:overshoot-above-write-queue-bound".into(), detail: format!("map held {} entries during an un-synced single-thread burst; bound is capacity {} + write queue {} + 2", seen, cap, WRITE_LOG_SIZE), op_index: 0 };
                    record(&mut report, &v, &text, &prop, &known, &mut sigs);
                }
            }
        }
        let mut st = mmv::monitor::Stats::default();
        let mut cfg2 = cfg.clone();
        cfg2.cap = cfg.cap;
        let vs = quiescence_checks(&sh, &cfg2, 0, &mut st, false);
        report.stats.merge(&st);
        for v in &vs {
            record(&mut report, v, &text, &prop, &known, &mut sigs);
        }
        if let Ok(s) = Arc::try_unwrap(sh) {
            drop(s);
        }
        if r < 2 {
            report.samples.push(Json::Str(text.replace('\n', " | ")));
        }
    }
    if out_path.is_empty() {
        println!("{}", report.to_json().dump());
    } else {
        report.write(&out_path);
    }
}

/// Multi-threaded un-synced insert bursts: the map never holds more than
/// capacity + write queue + 2 * threads entries (sampled by each inserting thread right
/// after its own insert returned).
fn mode_burstn(args: &Args) {
    let prop = args.str("prop", "all");
    let known = args.list("known");
    let seed = args.u64("seed", 1);
    let rounds = args.u64("rounds", 10);
    let out_path = args.str("out", "");
    let mut report = Report { engine: "conmon-burstn".into(), ..Default::default() };
    let mut master = Rng::new(seed ^ 0xBEEF);
    let mut sigs = HashSet::new();
    for r in 0..rounds {
        let mut rng = master.fork();
        let nthreads = *rng.pick(&[1usize, 2, 3, 4, 8]);
        let cap = *rng.pick(&[0u64, 1, 10, 100, 1000]);
        let mut cfg = gen_cfg(&mut rng, 1_000_000);
        cfg.cap = Some(cap);
        cfg.weigher = false;
        obj_reset();
        mmv::types::obj_track_set(false);
        let cache = build_sync(&cfg);
        let clock = cache.verif_install_mock_clock();
        let base = clock.now();
        let sh = Arc::new(Shared { cache, clock, base });
        if r % 2 == 1 {
            sh.clock.advance(Duration::from_secs(1));
        }
        let inject = r % 3 != 0;
        mini_moka::verif::set_switch_hook(Some(Arc::new(move |p| {
            common_hook(p);
            if inject && sched::tid() != usize::MAX {
                DELAY_RNG.with(|r| {
                    if let Some(rng) = r.borrow_mut().as_mut() {
                        if rng.below(16) == 0 {
                            if matches!(p, Point::SyncAfterReads | Point::SyncAfterWrites | Point::SyncAfterExpire) {
                                std::thread::sleep(Duration::from_micros(500 + rng.below(4500)));
                            } else {
                                std::thread::yield_now();
                            }
                        }
                    }
                });
            }
        })));
        BACKOFFS.store(0, Ordering::SeqCst);
        let per = 10 * WRITE_LOG_SIZE as u64;
        let max_seen = Arc::new(AtomicU64::new(0));
        // The map size is a sum over the shards of the map, read one after the other: it can count
        // entries that never were in the map together, but only entries put there while it was being
        // read. Inserts that began during the read are therefore taken off the sample (the ones in
        // flight when it began are the "entry per inserting thread" of the bound).
        let started = Arc::new(AtomicU64::new(0));
        let mut hs = Vec::new();
        for t in 0..nthreads {
            let sh2 = Arc::clone(&sh);
            let ms = Arc::clone(&max_seen);
            let started = Arc::clone(&started);
            let tseed = rng.next_u64();
            hs.push(std::thread::spawn(move || {
                sched::set_tid(t);
                DELAY_RNG.with(|r| *r.borrow_mut() = Some(Rng::new(tseed)));
                for i in 0..per {
                    let k = (t as u64 * 1_000_000 + i) as u32;
                    started.fetch_add(1, Ordering::SeqCst);
                    sh2.cache.insert(TK::new(k), TV::new(i + 1, 1));
                    let s0 = started.load(Ordering::SeqCst);
                    let n = sh2.cache.verif_map_len() as u64;
                    let during = started.load(Ordering::SeqCst) - s0;
                    ms.fetch_max(n.saturating_sub(during), Ordering::Relaxed);
                }
                DELAY_RNG.with(|r| *r.borrow_mut() = None);
                sched::set_tid(usize::MAX);
            }));
        }
        let t0 = Instant::now();
        let mut hung = false;
        while !hs.iter().all(|h| h.is_finished()) {
            if t0.elapsed() > Duration::from_secs(120) {
                hung = true;
                break;
            }
            std::thread::sleep(Duration::from_millis(1));
        }
        let text = format!("# engine conmon\nmode burstn strategy - sseed {}\n{}\n# {} threads x {} un-synced inserts of distinct keys, delay injection {}\n", seed, cfg.to_line(), nthreads, per, inject);
        report.evaluations += 1;
        if hung {
            let v = Violation { props: vec![], sig: "watchdog".into(), detail: "burst did not finish within 120 s".into(), op_index: 0 };
            record(&mut report, &v, &text, &prop, &known, &mut sigs);
            report.notes.push("shard stopped early".into());
            break;
        }
        for h in hs {
            let _ = h.join();
        }
        mini_moka::verif::set_switch_hook(None);
        let seen = max_seen.load(Ordering::Relaxed);
        let bound = cap + WRITE_LOG_SIZE as u64 + 2 * nthreads as u64;
        report.stats.inc("burst_overshoot_samples");
        report.stats.add("burst_operations", per * nthreads as u64);
        report.stats.add("backoff_events", BACKOFFS.load(Ordering::SeqCst));
        report.stats.max("max_overshoot_over_capacity", seen.saturating_sub(cap));
        report.distinct.entry("C04".into()).or_default().push(r ^ (seed << 20));
        report.distinct.entry("C09".into()).or_default().push(r ^ (seed << 20));
        if seen > bound {
            let v = Violation { props: vec!["C04"], sig: "burst:overshoot-above-write-queue-bound".into(), detail: format!("map held {} entries during an un-synced burst of {} threads; bound is capacity {} + write queue {} + 2 x threads", seen, nthreads, cap, WRITE_LOG_SIZE), op_index: 0 };
            record(&mut report, &v, &text, &prop, &known, &mut sigs);
        }
        let mut st = mmv::monitor::Stats::default();
        let vs = quiescence_checks(&sh, &cfg, 0, &mut st, false);
        report.stats.merge(&st);
        for v in &vs {
            record(&mut report, v, &text, &prop, &known, &mut sigs);
        }
        if let Ok(s) = Arc::try_unwrap(sh) {
            drop(s);
        }
        mmv::types::obj_track_set(true);
        if r < 2 {
            report.samples.push(Json::Str(text.replace('\n', " | ")));
        }
    }
    if out_path.is_empty() {
        println!("{}", report.to_json().dump());
    } else {
        report.write(&out_path);
    }
}

/// C16 concurrent clause: writers update a fixed key set, iterators run beside them.
fn mode_iter(args: &Args) {
    let prop = args.str("prop", "C16");
    let known = args.list("known");
    let seed = args.u64("seed", 1);
    let rounds = args.u64("rounds", 20);
    let out_path = args.str("out", "");
    let mut report = Report { engine: "conmon-iter".into(), ..Default::default() };
    let mut master = Rng::new(seed ^ 0x17E7);
    let mut sigs = HashSet::new();
    for r in 0..rounds {
        let mut rng = master.fork();
        let nkeys = *rng.pick(&[1u32, 3, 15, 16, 17, 63, 64, 65, 128, 200]);
        let writers = rng.range(1, 4) as usize;
        let readers = rng.range(1, 3) as usize;
        let mut cfg = gen_cfg(&mut rng, nkeys);
        let churn_keys: u32 = *rng.pick(&[0u32, 1, 4, 16]);
        cfg.cap = if rng.chance(1, 4) { None } else { Some(2 * nkeys as u64 + churn_keys as u64 + WRITE_LOG_SIZE as u64) };
        cfg.weigher = false;
        obj_reset();
        mmv::types::obj_track_set(false);
        let cache = build_sync(&cfg);
        let clock = cache.verif_install_mock_clock();
        let base = clock.now();
        let sh = Arc::new(Shared { cache, clock, base });
        // fixed key set, inserted and admitted before the race starts
        let mut init: Vec<(u64, u64, u64)> = Vec::new(); // (vid, call, ret)
        for k in 0..nkeys {
            let c = stamp();
            sh.cache.insert(TK::new(k), TV::new(k as u64 + 1, 1));
            init.push((k as u64 + 1, c, stamp()));
        }
        sh.cache.sync();
        let inject = r % 4 != 0;
        mini_moka::verif::set_switch_hook(Some(Arc::new(move |_p| {
            if inject && sched::tid() != usize::MAX {
                DELAY_RNG.with(|r| {
                    if let Some(rng) = r.borrow_mut().as_mut() {
                        if rng.below(8) == 0 {
                            std::thread::yield_now();
                        }
                    }
                });
            }
        })));
        let stop = Arc::new(AtomicBool::new(false));
        let per_writer = 2000u64;
        let mut whs = Vec::new();
        for w in 0..writers {
            let sh2 = Arc::clone(&sh);
            let tseed = rng.next_u64();
            whs.push(std::thread::spawn(move || {
                sched::set_tid(w);
                let mut rng = Rng::new(tseed);
                DELAY_RNG.with(|r| *r.borrow_mut() = Some(Rng::new(tseed ^ 1)));
                let mut log: Vec<(u32, u64, u64, u64)> = Vec::with_capacity(per_writer as usize);
                for i in 0..per_writer {
                    let k = rng.below(nkeys as u64) as u32;
                    let vid = (w as u64 + 1) * 1_000_000_000 + i + 1;
                    let c = stamp();
                    sh2.cache.insert(TK::new(k), TV::new(vid, 1));
                    log.push((k, vid, c, stamp()));
                    if i % 97 == 0 {
                        sh2.cache.sync();
                    }
                }
                DELAY_RNG.with(|r| *r.borrow_mut() = None);
                sched::set_tid(usize::MAX);
                log
            }));
        }
        // a churn thread inserts and invalidates a separate key range: iterations may or may not see
        // those keys, but never twice and never a value that was invalidated or replaced by an
        // operation that completed before the iteration began
        let churn_handle = if churn_keys > 0 {
            let sh2 = Arc::clone(&sh);
            let tseed = rng.next_u64();
            Some(std::thread::spawn(move || {
                sched::set_tid(50);
                let mut rng = Rng::new(tseed);
                // (key, vid or 0 for invalidate, call, ret)
                let mut log: Vec<(u32, u64, u64, u64)> = Vec::new();
                for i in 0..3000u64 {
                    let k = 10_000 + rng.below(churn_keys as u64) as u32;
                    if rng.chance(1, 3) {
                        let c = stamp();
                        sh2.cache.invalidate(&TK::probe(k));
                        log.push((k, 0, c, stamp()));
                    } else {
                        let vid = 77_000_000_000 + i + 1;
                        let c = stamp();
                        sh2.cache.insert(TK::new(k), TV::new(vid, 1));
                        log.push((k, vid, c, stamp()));
                    }
                }
                sched::set_tid(usize::MAX);
                log
            }))
        } else {
            None
        };
        let mut rhs = Vec::new();
        for rd in 0..readers {
            let sh2 = Arc::clone(&sh);
            let stop2 = Arc::clone(&stop);
            rhs.push(std::thread::spawn(move || {
                sched::set_tid(100 + rd);
                let mut its: Vec<(u64, u64, Vec<(u32, u64)>)> = Vec::new();
                while !stop2.load(Ordering::SeqCst) && its.len() < 3000 {
                    let b = stamp();
                    let items: Vec<(u32, u64)> = sh2.cache.iter().map(|e| (e.key().id, e.value().vid)).collect();
                    its.push((b, stamp(), items));
                }
                sched::set_tid(usize::MAX);
                its
            }));
        }
        // a writer that never comes back (spinning on a full write queue after another thread
        // panicked inside the maintenance, or blocked for good) must not hang the shard
        {
            let t0 = Instant::now();
            let mut idle = mmv::report::IdleWatch::new(6);
            let all_done = |whs: &Vec<std::thread::JoinHandle<Vec<(u32, u64, u64, u64)>>>| whs.iter().all(|h| h.is_finished());
            while !(all_done(&whs) && churn_handle.as_ref().map(|h| h.is_finished()).unwrap_or(true)) {
                std::thread::sleep(Duration::from_millis(2));
                let blocked = t0.elapsed() > Duration::from_secs(2) && idle.idle();
                if blocked || t0.elapsed() > Duration::from_secs(WATCHDOG_SECS.load(Ordering::Relaxed) * 4) {
                    let text = format!("# engine conmon\nmode iter strategy - sseed {}\n{}\n", seed, cfg.to_line());
                    let v = if blocked {
                        Violation { props: vec!["C09"], sig: "deadlock:all-threads-blocked-without-cpu-progress".into(), detail: "writer threads beside iterators have not finished and the process consumed no CPU time for 6 s".into(), op_index: 0 }
                    } else {
                        Violation { props: vec![], sig: "watchdog".into(), detail: "writers beside iterators did not finish".into(), op_index: 0 }
                    };
                    record(&mut report, &v, &text, &prop, &known, &mut sigs);
                    report.notes.push("shard stopped early: writer threads did not come back".into());
                    if out_path.is_empty() {
                        println!("{}", report.to_json().dump());
                    } else {
                        report.write(&out_path);
                    }
                    mmv::report::exit_now(0);
                }
            }
        }
        let mut writes: HashMap<u32, Vec<(u64, u64, u64)>> = HashMap::new();
        for (k, (vid, c, rt)) in init.iter().enumerate() {
            writes.entry(k as u32).or_default().push((*vid, *c, *rt));
        }
        for h in whs {
            if let Ok(log) = h.join() {
                for (k, vid, c, rt) in log {
                    writes.entry(k).or_default().push((vid, c, rt));
                }
            }
        }
        let mut churn: HashMap<u32, Vec<(u64, u64, u64)>> = HashMap::new();
        if let Some(h) = churn_handle {
            if let Ok(log) = h.join() {
                for (k, vid, c, rt) in log {
                    churn.entry(k).or_default().push((vid, c, rt));
                }
            }
        }
        stop.store(true, Ordering::SeqCst);
        let mut iterations = Vec::new();
        for h in rhs {
            if let Ok(its) = h.join() {
                iterations.extend(its);
            }
        }
        mini_moka::verif::set_switch_hook(None);
        let text = format!("# engine conmon\nmode iter strategy - sseed {}\n{}\n# {} keys, {} writers x {} updates, {} iterating threads, delay injection {}\n", seed, cfg.to_line(), nkeys, writers, per_writer, readers, inject);
        report.evaluations += 1;
        let mut overlapping = 0u64;
        for (b, e, items) in &iterations {
            report.stats.inc("concurrent_iterations");
            let mut seen: HashMap<u32, u64> = HashMap::new();
            for (k, v) in items {
                if seen.insert(*k, *v).is_some() {
                    let vv = Violation { props: vec!["C16"], sig: "iter:duplicate-key:concurrent".into(), detail: format!("an iteration yielded key {} twice", k), op_index: 0 };
                    record(&mut report, &vv, &text, &prop, &known, &mut sigs);
                }
            }
            for (k, v) in items.iter().filter(|(k, _)| *k >= 10_000) {
                report.stats.inc("churn_items_judged");
                let ops = churn.get(k).cloned().unwrap_or_default();
                match ops.iter().find(|o| o.0 == *v) {
                    None => {
                        let vv = Violation { props: vec!["C16", "C01"], sig: "iter:phantom-value:concurrent".into(), detail: format!("an iteration yielded value {} for churn key {}, which nobody wrote", v, k), op_index: 0 };
                        record(&mut report, &vv, &text, &prop, &known, &mut sigs);
                    }
                    Some(w) => {
                        if w.1 > *e {
                            let vv = Violation { props: vec!["C16"], sig: "iter:future-value:concurrent".into(), detail: format!("an iteration yielded value {} for key {} whose insert began after the iteration ended", v, k), op_index: 0 };
                            record(&mut report, &vv, &text, &prop, &known, &mut sigs);
                        }
                        if let Some(x) = ops.iter().find(|x| x.0 != w.0 && x.1 > w.2 && x.2 < *b) {
                            let what = if x.0 == 0 { "invalidated" } else { "replaced" };
                            let vv = Violation {
                                props: vec!["C16", "C07"],
                                sig: format!("iter:{}-value:concurrent", what),
                                detail: format!("an iteration yielded value {} for key {} which had been {} by an operation that completed before the iteration began", v, k, what),
                                op_index: 0,
                            };
                            record(&mut report, &vv, &text, &prop, &known, &mut sigs);
                        }
                    }
                }
            }
            let mut overlapped = false;
            for k in 0..nkeys {
                let ws = &writes[&k];
                match seen.get(&k) {
                    None => {
                        let vv = Violation { props: vec!["C16"], sig: "iter:resident-key-missing:concurrent".into(), detail: format!("an iteration missed key {}, which stays resident throughout (it is only ever updated)", k), op_index: 0 };
                        record(&mut report, &vv, &text, &prop, &known, &mut sigs);
                    }
                    Some(v) => match ws.iter().find(|w| w.0 == *v) {
                        None => {
                            let vv = Violation { props: vec!["C16", "C01"], sig: "iter:phantom-value:concurrent".into(), detail: format!("an iteration yielded value {} for key {}, which nobody wrote", v, k), op_index: 0 };
                            record(&mut report, &vv, &text, &prop, &known, &mut sigs);
                        }
                        Some(w) => {
                            if w.1 > *e {
                                let vv = Violation { props: vec!["C16"], sig: "iter:future-value:concurrent".into(), detail: format!("an iteration yielded value {} for key {} whose insert began after the iteration ended", v, k), op_index: 0 };
                                record(&mut report, &vv, &text, &prop, &known, &mut sigs);
                            }
                            if ws.iter().any(|x| x.0 != w.0 && x.1 > w.2 && x.2 < *b) {
                                let vv = Violation { props: vec!["C16"], sig: "iter:stale-value:concurrent".into(), detail: format!("an iteration yielded value {} for key {} which had been replaced by a write that completed before the iteration began", v, k), op_index: 0 };
                                record(&mut report, &vv, &text, &prop, &known, &mut sigs);
                            }
                            if ws.iter().any(|x| x.1 < *e && x.2 > *b) {
                                overlapped = true;
                            }
                        }
                    },
                }
            }
            if overlapped {
                overlapping += 1;
            }
        }
        report.stats.add("iterations_overlapping_a_write_of_a_yielded_key", overlapping);
        if overlapping > 0 {
            report.distinct.entry("C16".into()).or_default().push(r ^ (seed << 20) ^ ((nkeys as u64) << 40));
        }
        if let Ok(s) = Arc::try_unwrap(sh) {
            drop(s);
        }
        mmv::types::obj_track_set(true);
        if r < 2 {
            report.samples.push(Json::Str(text.replace('\n', " | ")));
        }
    }
    if out_path.is_empty() {
        println!("{}", report.to_json().dump());
    } else {
        report.write(&out_path);
    }
}

// ---------------------------------------------------------------------------------------------
// observers: C15 beside other threads
// ---------------------------------------------------------------------------------------------

/// What one run of the writer program showed: the results of its own operations and, after the
/// observers have stopped and a final sync(), the physical state (addresses stripped) and the
/// popularity table.
#[derive(PartialEq)]
struct ObsOutcome {
    results: Vec<String>,
    snap: Snap,
    sketch: Vec<u64>,
    counters: (u64, u64),
}

fn strip_addrs(mut s: Snap) -> Snap {
    for e in s.entries.iter_mut() {
        e.info = 0;
        e.ao = e.ao.map(|(_, t)| (0, t));
        e.wo = e.wo.map(|_| 0);
    }
    for d in [&mut s.window, &mut s.probation, &mut s.protected, &mut s.write_order] {
        for n in d.iter_mut() {
            n.addr = 0;
            n.info = 0;
        }
    }
    s
}

/// Runs the writer program on a fresh cache, with `observers` threads that only call
/// contains_key and iterate (holding a yielded entry reference for a while) until it is done.
/// Returns the outcome and the number of observations made.
fn run_observed(cfg: &Config, ops: &[COp], observers: usize, oseed: u64) -> (ObsOutcome, u64, u64) {
    mini_moka::verif::set_switch_hook(None);
    let cache = build_sync(cfg);
    let clock = cache.verif_install_mock_clock();
    let base = clock.now();
    let stop = Arc::new(AtomicBool::new(false));
    let made = Arc::new(AtomicU64::new(0));
    let held = Arc::new(AtomicU64::new(0));
    let mut hs = Vec::new();
    for o in 0..observers {
        let c = cache.clone();
        let stop = Arc::clone(&stop);
        let made = Arc::clone(&made);
        let held = Arc::clone(&held);
        let keys = cfg.keys;
        let mut rng = Rng::new(oseed ^ ((o as u64 + 1) << 32));
        hs.push(std::thread::spawn(move || {
            while !stop.load(Ordering::Relaxed) {
                match rng.below(4) {
                    0 | 1 => {
                        let _ = c.contains_key(&TK::probe(rng.below(keys as u64) as u32));
                    }
                    2 => {
                        let n = c.iter().count();
                        std::hint::black_box(n);
                    }
                    _ => {
                        // keep a yielded reference (and with it the read lock of its shard) for a while
                        let mut it = c.iter();
                        for _ in 0..rng.below(4) {
                            let _ = it.next();
                        }
                        if let Some(e) = it.next() {
                            let spin = rng.below(300);
                            let t0 = Instant::now();
                            while (t0.elapsed().as_micros() as u64) < spin {
                                std::hint::spin_loop();
                            }
                            std::hint::black_box(e.value().vid);
                            // reading the counters is an observation too
                            std::hint::black_box(c.entry_count() + c.weighted_size());
                            held.fetch_add(1, Ordering::Relaxed);
                        }
                        drop(it);
                    }
                }
                made.fetch_add(1, Ordering::Relaxed);
            }
        }));
    }
    let mut results = Vec::with_capacity(ops.len());
    let mut counter = 0u64;
    // the observers must really be beside the writer: it starts when each of them has observed once,
    // and every few operations it lets them observe again (bounded waits: a loaded machine only makes
    // the run less dense, never stuck)
    let wait_for = |target: u64, max: Duration| {
        let t0 = Instant::now();
        while observers > 0 && made.load(Ordering::Relaxed) < target && t0.elapsed() < max {
            std::thread::yield_now();
        }
    };
    wait_for(observers as u64, Duration::from_millis(50));
    for (oi, op) in ops.iter().enumerate() {
        if oi % 8 == 7 {
            wait_for(made.load(Ordering::Relaxed) + 1, Duration::from_millis(2));
        }
        let r = match *op {
            COp::Insert { k, w } => {
                counter += 1;
                cache.insert(TK::new(k), TV::new(counter, w));
                String::new()
            }
            COp::Get { k } => format!("{:?}", cache.get(&TK::probe(k)).map(|v| v.vid)),
            COp::Contains { k } => format!("{}", cache.contains_key(&TK::probe(k))),
            COp::Invalidate { k } => {
                cache.invalidate(&TK::probe(k));
                String::new()
            }
            COp::InvalidateAll => {
                clock.advance(Duration::from_nanos(1));
                cache.invalidate_all();
                String::new()
            }
            COp::Sync => {
                cache.sync();
                String::new()
            }
            COp::Advance { ns } => {
                clock.advance(Duration::from_nanos(ns as u64));
                String::new()
            }
            COp::Iter | COp::IterInv => {
                let mut v: Vec<(u32, u64)> = cache.iter().map(|e| (e.key().id, e.value().vid)).collect();
                v.sort();
                format!("{:?}", v)
            }
        };
        results.push(r);
    }
    stop.store(true, Ordering::SeqCst);
    for h in hs {
        let _ = h.join();
    }
    cache.sync();
    let snap = strip_addrs(convert(cache.verif_snapshot(|k| k.id as u64, |v| v.vid), base));
    let sketch = cache.verif_sketch().table();
    let counters = (cache.entry_count(), cache.weighted_size());
    (ObsOutcome { results, snap, sketch, counters }, made.load(Ordering::Relaxed), held.load(Ordering::Relaxed))
}

fn gen_observed_prog(rng: &mut Rng) -> Prog {
    let keys = rng.range(4, 12) as u32;
    let mut cfg = gen_cfg(rng, keys);
    cfg.cap = Some(*rng.pick(&[1u64, 2, 3, 4, 6]));
    cfg.hasher = HashMode::Mix(rng.below(1000));
    let idle = rng.chance(1, 2);
    let mut ops = Vec::new();
    if idle {
        // beyond the periodical-sync window: operations queue up until a flush point or an explicit sync()
        ops.push(COp::Advance { ns: 501_000_000 });
    }
    for _ in 0..rng.range(60, 200) {
        let k = rng.below(keys as u64) as u32;
        ops.push(match rng.below(20) {
            0..=6 => COp::Insert { k, w: if cfg.weigher { *rng.pick(&[0u32, 1, 1, 2, 3]) } else { 1 } },
            7..=13 => COp::Get { k },
            14 => COp::Invalidate { k },
            15 => COp::Contains { k },
            16 => {
                if rng.chance(1, 3) {
                    COp::InvalidateAll
                } else {
                    COp::Iter
                }
            }
            17 => COp::Advance { ns: if short_expiry(&cfg) { rng.range(1, 3) as u32 } else { 1 } },
            _ => COp::Sync,
        });
    }
    ops.push(COp::Sync);
    Prog { cfg, threads: vec![ops], idle }
}

const DEADLOCK_BESIDE_OBSERVERS: &str = "the writer and the observer threads have not finished and for 6 s every one of them was seen blocked (kernel state S/D, never runnable) without consuming CPU time: a call never returns beside threads that only observe (contains_key, iteration, entry_count / weighted_size while holding an entry reference)";

/// `run_observed` on a helper thread, given up after 20 s of wall-clock time (no verdict either way:
/// the run is skipped and counted; its threads and its cache are left behind).
fn run_observed_bounded(cfg: &Config, ops: &[COp], observers: usize, oseed: u64) -> Result<(ObsOutcome, u64, u64), bool> {
    let (tx, rx) = std::sync::mpsc::channel();
    let cfg2 = cfg.clone();
    let ops2 = ops.to_vec();
    std::thread::spawn(move || {
        let r = run_observed(&cfg2, &ops2, observers, oseed);
        let _ = tx.send(r);
    });
    // every thread of the process but this one (which only waits here)
    let me = std::process::id();
    let others = || -> Vec<u32> {
        std::fs::read_dir("/proc/self/task")
            .map(|d| d.filter_map(|e| e.ok().and_then(|e| e.file_name().to_str().and_then(|s| s.parse::<u32>().ok()))).filter(|t| *t != me).collect())
            .unwrap_or_default()
    };
    let tids: Arc<Mutex<Vec<u32>>> = Arc::new(Mutex::new(others()));
    let mut idle = mmv::report::IdleWatch::for_threads(6, Arc::clone(&tids));
    let t0 = Instant::now();
    loop {
        match rx.recv_timeout(Duration::from_millis(100)) {
            Ok(r) => return Ok(r),
            Err(std::sync::mpsc::RecvTimeoutError::Disconnected) => return Err(false),
            Err(std::sync::mpsc::RecvTimeoutError::Timeout) => {}
        }
        if let Ok(mut g) = tids.lock() {
            *g = others();
        }
        if t0.elapsed() > Duration::from_secs(2) && idle.idle() {
            // the writer and every observer are blocked for good (Err(true): a deadlock, decided on thread states)
            return Err(true);
        }
        if t0.elapsed() > Duration::from_secs(20) {
            // merely slow: no verdict
            return Err(false);
        }
    }
}

/// The first difference between the solo run and an observed run, if any.
fn observed_difference(prog: &Prog, observers: usize, oseed: u64, stats: &mut mmv::monitor::Stats) -> Option<String> {
    let ops = &prog.threads[0];
    let (solo, obs, made, held) = match (run_observed_bounded(&prog.cfg, ops, 0, 0), run_observed_bounded(&prog.cfg, ops, observers, oseed)) {
        (Ok((solo, _, _)), Ok((obs, made, held))) => (solo, obs, made, held),
        (a, b) => {
            if a.err() == Some(true) || b.err() == Some(true) {
                stats.inc("observed_runs_deadlocked");
                return Some(DEADLOCK_BESIDE_OBSERVERS.to_string());
            }
            stats.inc("observed_runs_given_up_after_20s");
            return None;
        }
    };
    stats.add("observations_made_beside_the_writer", made);
    stats.add("entry_references_held_beside_the_writer", held);
    if solo.results != obs.results {
        let i = solo.results.iter().zip(obs.results.iter()).position(|(a, b)| a != b).unwrap_or(0);
        return Some(format!("result of the writer's op #{} `{}` differs: {} alone, {} beside {} observer thread(s)", i, ops[i].text(), solo.results[i], obs.results[i], observers));
    }
    if solo.counters != obs.counters {
        return Some(format!("entry_count / weighted_size after the program: {:?} alone, {:?} beside {} observer thread(s)", solo.counters, obs.counters, observers));
    }
    if solo.sketch != obs.sketch {
        return Some(format!("the popularity table after the program differs beside {} observer thread(s)", observers));
    }
    if solo.snap != obs.snap {
        let keys = |s: &Snap| s.probation.iter().map(|n| n.key).collect::<Vec<_>>();
        return Some(format!("the physical state after the program differs: LRU order {:?} alone, {:?} beside {} observer thread(s)", keys(&solo.snap), keys(&obs.snap), observers));
    }
    None
}

fn mode_observers(args: &Args) {
    let prop = args.str("prop", "all");
    let known = args.list("known");
    let seed = args.u64("seed", 1);
    let nprog = args.u64("programs", 100);
    let out_path = args.str("out", "");
    let mut report = Report { engine: "conmon-observers".into(), ..Default::default() };
    let mut master = Rng::new(seed ^ 0x0B5E);
    let mut sigs = HashSet::new();
    mmv::types::obj_track_set(false);
    for pi in 0..nprog {
        let mut rng = master.fork();
        let prog = gen_observed_prog(&mut rng);
        let observers = rng.range(1, 3) as usize;
        let oseed = rng.next_u64() >> 8;
        report.evaluations += 1;
        set_current(&prog.text("observers", &format!("{}", observers), oseed), false);
        report.stats.inc("observed_programs");
        if report.stats.c.get("observed_runs_deadlocked").copied().unwrap_or(0) >= 1 {
            report.notes.push(format!("stopped after {} programs: a run deadlocked", pi));
            break;
        }
        if report.stats.c.get("observed_runs_given_up_after_20s").copied().unwrap_or(0) >= 3 {
            report.notes.push(format!("stopped after {} programs: three runs were given up", pi));
            break;
        }
        if let Some(why) = observed_difference(&prog, observers, oseed, &mut report.stats) {
            report.stats.inc("violating_runs");
            let v = if why == DEADLOCK_BESIDE_OBSERVERS {
                Violation { props: vec!["C09"], sig: "deadlock:beside-observer-threads".into(), detail: why, op_index: 0 }
            } else {
                Violation { props: vec!["C15"], sig: "pure:observer-threads-changed-behaviour".into(), detail: why, op_index: 0 }
            };
            record(&mut report, &v, &prog.text("observers", &format!("{}", observers), oseed), &prop, &known, &mut sigs);
        }
        report.distinct.entry("C15".into()).or_default().push(prog.fingerprint());
        if pi % 29 == 0 && report.samples.len() < 3 {
            report.samples.push(Json::Str(prog.text("observers", "-", 0).replace('\n', " | ")));
        }
    }
    mmv::types::obj_track_set(true);
    let given_up = report.stats.c.get("observed_runs_given_up_after_20s").copied().unwrap_or(0) + report.stats.c.get("observed_runs_deadlocked").copied().unwrap_or(0);
    if given_up > 0 {
        report.notes.push(format!("{} observed run(s) did not finish within 20 s of wall-clock time and were skipped without a verdict", given_up));
    }
    if out_path.is_empty() {
        println!("{}", report.to_json().dump());
    } else {
        report.write(&out_path);
    }
    if given_up > 0 {
        // threads of the skipped runs may still be alive
        mmv::report::exit_now(0);
    }
}

fn main() {
    install_panic_hook();
    let args = Args::parse();
    WATCHDOG_SECS.store(args.u64("watchdog-secs", 30), Ordering::Relaxed);
    if let Some(path) = args.get("replay") {
        let text = std::fs::read_to_string(path).expect("cannot read replay file");
        let prop = args.str("prop", "all");
        let known = args.list("known");
        match parse_prog(&text) {
            Some((prog, mode, strategy, sseed)) if mode == "observers" && !prog.threads.is_empty() => {
                let mut stats = mmv::monitor::Stats::default();
                let observers: usize = strategy.parse().unwrap_or(2);
                for t in 0..100u64 {
                    if let Some(why) = observed_difference(&prog, observers, sseed + t, &mut stats) {
                        println!("REPLAY-VIOLATION props=[\"C15\"] sig=pure:observer-threads-changed-behaviour: {}", why);
                        std::process::exit(1);
                    }
                }
                println!("replayed program (100 runs beside {} observer thread(s)): no difference", observers);
                std::process::exit(0);
            }
            Some((prog, mode, strategy, sseed)) if !prog.threads.is_empty() => {
                let mut stats = mmv::monitor::Stats::default();
                let tries = if mode == "stress" || mode == "chase" { 200 } else { 1 };
                let mut bad = 0;
                for t in 0..tries {
                    let r = run_program(&prog, &mode, parse_strategy(&strategy), sseed + t, &mut stats, false);
                    for v in &r.violations {
                        if wanted(v, &prop) && !known.contains(&v.sig) {
                            bad += 1;
                            println!("REPLAY-VIOLATION props={:?} sig={}: {}", v.props, v.sig, v.detail);
                        }
                    }
                    if bad > 0 || r.hung {
                        break;
                    }
                }
                println!("replayed program ({} run(s)): {} violation(s) for {}", tries, bad, prop);
                std::process::exit(if bad > 0 { 1 } else { 0 });
            }
            _ => {
                println!("this witness describes a generated workload (burst / iter); re-run the check with the same VERIF_SEED to reproduce it");
                std::process::exit(2);
            }
        }
    }
    let mode_name = args.str("mode", "baton");
    // (the interpreter has no /proc, and it wants every thread joined before the program ends)
    // (not in the observers mode: its runs are bounded by a timeout of their own and never end a shard)
    if !cfg!(miri) && matches!(mode_name.as_str(), "baton" | "park" | "stress" | "chase") {
        start_sentinel(args.str("out", ""), args.str("prop", "all"), format!("conmon-{}", mode_name));
    }
    match mode_name.as_str() {
        "baton" => mode_programs(&args, "baton"),
        "park" => mode_programs(&args, "park"),
        "stress" => mode_programs(&args, "stress"),
        "chase" => mode_programs(&args, "chase"),
        "burst1" => mode_burst1(&args),
        "burstn" => mode_burstn(&args),
        "iter" => mode_iter(&args),
        "observers" => mode_observers(&args),
        m => panic!("unknown mode {}", m),
    }
}
