//! E3: drives the real `FrequencySketch` (through the `VerifSketch` facade) against an exact
//! reference: the true count per hash, saturating at 15 and floor-halved by every aging step.

use mini_moka::verif::VerifSketch;
use mmv::json::Json;
use mmv::monitor::{install_panic_hook, norm_loc, take_panic, Violation};
use mmv::report::{Args, Report};
use mmv::rng::Rng;
use std::collections::HashMap;

#[derive(Clone, Copy, Debug, PartialEq, Eq)]
enum Stream {
    Uniform,
    Zipf,
    Hot,
    AllEqual,
    Sequential,
    /// slot-aware: prefers hashes whose four counters are currently even, which maximises
    /// the number of odd counters at the next aging step
    Spreading,
}

const STREAMS: [Stream; 6] = [Stream::Uniform, Stream::Zipf, Stream::Hot, Stream::AllEqual, Stream::Sequential, Stream::Spreading];

struct Model {
    /// true count per tracked hash
    c: HashMap<u64, u8>,
}

fn counter_of(table: &[u64], slot: (usize, u8)) -> u8 {
    ((table[slot.0] >> ((slot.1 as u64) << 2)) & 0xF) as u8
}

fn next_hash(stream: Stream, rng: &mut Rng, sk: &VerifSketch, step: u64, universe: u64) -> u64 {
    match stream {
        Stream::Uniform => rng.below(universe).wrapping_mul(0x9E37_79B9_7F4A_7C15),
        Stream::Zipf => {
            // rank ~ 1/x
            let u = rng.below(1 << 20) + 1;
            let rank = ((universe as f64).powf(u as f64 / (1u64 << 20) as f64)) as u64;
            rank.wrapping_mul(0xD6E8_FEB8_6659_FD93)
        }
        Stream::Hot => {
            if rng.chance(9, 10) {
                rng.below(4).wrapping_mul(0xA24B_AED4_963E_E407)
            } else {
                rng.below(universe).wrapping_mul(0x9E37_79B9_7F4A_7C15)
            }
        }
        Stream::AllEqual => 0x1234_5678_9ABC_DEF0,
        Stream::Sequential => step,
        Stream::Spreading if sk.table_len() > 2048 => rng.next_u64(),
        Stream::Spreading => {
            let table = sk.table();
            let mut best = rng.next_u64();
            let mut best_even = -1i32;
            for _ in 0..8 {
                let h = rng.next_u64();
                if table.is_empty() {
                    return h;
                }
                let even = sk.slots(h).iter().filter(|s| counter_of(&table, **s) % 2 == 0 && counter_of(&table, **s) < 15).count() as i32;
                if even > best_even {
                    best_even = even;
                    best = h;
                }
            }
            best
        }
    }
}

struct Ctx<'a> {
    report: &'a mut Report,
    prop: &'a str,
    case: String,
}

impl Ctx<'_> {
    fn violate(&mut self, sig: &str, detail: String, props: &[&'static str]) {
        self.report.stats.inc("violating_cases");
        if !(self.prop == "all" || props.iter().any(|p| *p == self.prop)) {
            for p in props {
                *self.report.other_property_alarms.entry(format!("{}:{}", p, sig)).or_insert(0) += 1;
            }
            return;
        }
        if self.report.violations.len() < 5 && !self.report.violations.iter().any(|v| v.get("sig").and_then(|s| s.as_str()) == Some(sig)) {
            let v = Violation { props: props.to_vec(), sig: sig.to_string(), detail, op_index: 0 };
            self.report.violations.push(Report::violation_json(&v, &format!("# engine sketchmon\n{}\n", self.case), 0));
        }
    }
}

/// One (capacity, stream, seed) case. Returns false when a violation ended it.
#[allow(clippy::too_many_arguments)]
fn run_case(ctx: &mut Ctx, cap: u32, stream: Stream, seed: u64, steps: u64, fixed: Option<&[u64]>) -> bool {
    let mut rng = Rng::new(seed);
    let mut sk = VerifSketch::new();
    sk.ensure_capacity(cap);
    let table_len = sk.table_len();
    let full_table_checks = table_len <= 256;
    let universe = *rng.pick(&[4u64, 16, 64, 1024, 1 << 20]);
    let mut m = Model { c: HashMap::new() };
    let max_tracked = 48usize;
    // which (table index, counter) slots have been touched, and by how many distinct hashes
    let mut slot_users: HashMap<(usize, u8), Vec<u64>> = HashMap::new();
    let mut all_hashes_tracked = true;
    let mut agings = 0u64;
    let mut saturated_seen = 0u64;
    let n = fixed.map(|f| f.len() as u64).unwrap_or(steps);
    for step in 0..n {
        let h = match fixed {
            Some(f) => f[step as usize],
            None => next_hash(stream, &mut rng, &sk, step, universe),
        };
        let pre_size = sk.size();
        let sample = sk.sample_size();
        let may_age = pre_size + 1 >= sample;
        let pre_table = if full_table_checks || may_age { Some(sk.table()) } else { None };
        let pre_est: Vec<(u64, u8)> = m.c.keys().map(|k| (*k, sk.frequency(*k))).collect();
        sk.increment(h);
        let post_size = sk.size();
        // an increment adds at most one to `size`; only the aging step makes it smaller
        let aged = post_size < pre_size;
        // reference
        let tracked = m.c.contains_key(&h) || m.c.len() < max_tracked;
        if tracked {
            let e = m.c.entry(h).or_insert(0);
            *e = (*e + 1).min(15);
            if *e == 15 {
                saturated_seen += 1;
            }
        } else {
            all_hashes_tracked = false;
        }
        for s in sk.slots(h) {
            let u = slot_users.entry(s).or_default();
            if !u.contains(&h) && u.len() < 4 {
                u.push(h);
            }
        }
        if aged {
            agings += 1;
            for v in m.c.values_mut() {
                *v /= 2;
            }
        }
        // table-level exactness
        if let Some(pt) = &pre_table {
            let mut expect = pt.clone();
            if !expect.is_empty() {
                for (idx, off) in sk.slots(h) {
                    let cur = (expect[idx] >> ((off as u64) << 2)) & 0xF;
                    if cur < 15 {
                        expect[idx] += 1u64 << ((off as u64) << 2);
                    }
                }
            }
            if aged {
                for w in expect.iter_mut() {
                    let mut nw = 0u64;
                    for i in 0..16u64 {
                        let c = (*w >> (i << 2)) & 0xF;
                        nw |= (c / 2) << (i << 2);
                    }
                    *w = nw;
                }
            }
            let post = sk.table();
            if post != expect {
                let what = if aged { "an aging step did not floor-halve every counter of the table at once" } else { "an increment did not add exactly one to each of the hash's four counters (saturating at 15)" };
                ctx.violate(
                    if aged { "sketch:aging-not-exact-halving" } else { "sketch:increment-not-exact" },
                    format!("capacity {}, stream {:?}, step {}: {}", cap, stream, step, what),
                    &["C14"],
                );
                return false;
            }
        }
        // estimates (every step on small tables, every 8th step on large ones)
        if !full_table_checks && step % 8 != 0 && !aged {
            continue;
        }
        for (k, c) in m.c.iter() {
            let est = sk.frequency(*k);
            if est > 15 {
                ctx.violate("sketch:estimate-above-15", format!("capacity {}, stream {:?}, step {}: estimate {} > 15", cap, stream, step, est), &["C14"]);
                return false;
            }
            if est < *c {
                ctx.violate(
                    "sketch:underestimate",
                    format!("capacity {}, stream {:?}, step {}: estimate {} of a hash is below its recorded count {} ({} aging steps so far)", cap, stream, step, est, c, agings),
                    &["C14"],
                );
                return false;
            }
            if all_hashes_tracked && table_len > 0 {
                let alone = sk.slots(*k).iter().all(|s| slot_users.get(s).map(|u| u.iter().all(|x| x == k)).unwrap_or(true));
                if alone {
                    ctx.report.stats.inc("collision_free_estimates_checked");
                    if est != *c {
                        ctx.violate(
                            "sketch:collision-free-estimate-differs",
                            format!("capacity {}, stream {:?}, step {}: estimate {} != recorded count {} although no other hash shares a counter", cap, stream, step, est, c),
                            &["C14"],
                        );
                        return false;
                    }
                }
            }
        }
        if !aged {
            for (k, before) in &pre_est {
                if *k != h && sk.frequency(*k) < *before {
                    ctx.violate(
                        "sketch:estimate-lowered-without-aging",
                        format!("capacity {}, stream {:?}, step {}: recording another hash lowered an estimate from {} to {}", cap, stream, step, before, sk.frequency(*k)),
                        &["C14"],
                    );
                    return false;
                }
            }
        }
    }
    ctx.report.stats.add("increments", n);
    ctx.report.stats.add("aging_steps", agings);
    ctx.report.stats.add("saturated_counter_events", saturated_seen);
    let class = if cap <= 3 {
        "aging_steps_capacity_tiny"
    } else if cap <= 257 {
        "aging_steps_capacity_small"
    } else if cap <= 1000 {
        "aging_steps_capacity_medium"
    } else {
        "aging_steps_capacity_large"
    };
    ctx.report.stats.add(class, agings);
    true
}

fn guarded(ctx: &mut Ctx, f: impl FnOnce(&mut Ctx) -> bool) {
    let r = std::panic::catch_unwind(std::panic::AssertUnwindSafe(|| f(ctx)));
    if r.is_err() {
        let (loc, msg) = take_panic().unwrap_or_else(|| ("?".into(), "?".into()));
        let case = ctx.case.clone();
        ctx.violate(&format!("panic@{}", norm_loc(&loc)), format!("{}: panicked at {}: {}", case, loc, msg), &["C08", "C14"]);
    }
}

fn main() {
    install_panic_hook();
    let args = Args::parse();
    let prop = args.str("prop", "C14");
    let seed = args.u64("seed", 1);
    let budget = args.u64("budget", 2_000_000); // increments per shard, roughly
    let shard = args.u64("shard", 0);
    let nshards = args.u64("nshards", 1);
    let exhaustive_len = args.u64("exhaustive-len", 9);
    let big = args.u64("big", 0) == 1;
    let out = args.str("out", "");
    let mut report = Report { engine: "sketchmon".into(), ..Default::default() };
    if let Some(path) = args.get("replay") {
        // a witness names its case: `case cap=<n> stream=<s> seed=<n> steps=<n>`
        let text = std::fs::read_to_string(path).expect("cannot read");
        let line = text.lines().find(|l| l.starts_with("case ")).expect("no case line");
        let mut kv = HashMap::new();
        for p in line.split_whitespace().skip(1) {
            if let Some((k, v)) = p.split_once('=') {
                kv.insert(k.to_string(), v.to_string());
            }
        }
        let cap: u32 = kv["cap"].parse().unwrap();
        let steps: u64 = kv["steps"].parse().unwrap();
        let cseed: u64 = kv["seed"].parse().unwrap();
        let stream = STREAMS.iter().copied().find(|s| format!("{:?}", s) == kv["stream"]).unwrap_or(Stream::Uniform);
        let mut ctx = Ctx { report: &mut report, prop: &prop, case: line.to_string() };
        guarded(&mut ctx, |c| run_case(c, cap, stream, cseed, steps, None));
        let bad = report.violations.len();
        for v in &report.violations {
            println!("REPLAY-VIOLATION {}", v.dump());
        }
        std::process::exit(if bad > 0 { 1 } else { 0 });
    }
    let mut caps: Vec<u32> = vec![0, 1, 2, 3, 5, 127, 128, 129, 255, 257, 1000];
    if big {
        caps.push(65537);
        caps.push(1 << 20);
    } else {
        caps.push(65537);
    }
    let mut rng = Rng::new(seed ^ 0x5CE7C4);
    let mut case_idx = 0u64;
    let mut spent = 0u64;
    'outer: loop {
        for cap in &caps {
            for stream in STREAMS {
                case_idx += 1;
                let cseed = rng.next_u64() >> 8;
                if case_idx % nshards != shard {
                    continue;
                }
                let sample = if *cap == 0 { 10u64 } else { (*cap as u64) * 10 };
                let steps = (sample * rng.range(2, 12)).min(if big { 25_000_000 } else { 1_400_000 });
                if steps > 3_000_000 && !big {
                    continue;
                }
                let case = format!("case cap={} stream={:?} seed={} steps={}", cap, stream, cseed, steps);
                let mut ctx = Ctx { report: &mut report, prop: &prop, case: case.clone() };
                guarded(&mut ctx, |c| run_case(c, *cap, stream, cseed, steps, None));
                report.evaluations += 1;
                report.distinct.entry("C14".into()).or_default().push(cseed ^ ((*cap as u64) << 40));
                report.distinct.entry("C08".into()).or_default().push(cseed ^ ((*cap as u64) << 40));
                if report.samples.len() < 6 && case_idx % 5 == 0 {
                    report.samples.push(Json::Str(case));
                }
                spent += steps;
                if spent >= budget {
                    break 'outer;
                }
            }
        }
    }
    // bounded-exhaustive: all sequences over a universe of 3 hashes at tiny capacities
    if shard == 0 {
        let hashes = [0u64, 0x9E37_79B9_7F4A_7C15, 0xFFFF_FFFF_FFFF_FFFF];
        for cap in [0u32, 1, 2, 3] {
            // sample_size is 10 for capacities 0 and 1: sequences of 11 reach the aging step
            let len = if cap <= 1 { exhaustive_len as usize + 2 } else { exhaustive_len as usize };
            let total = 3u64.pow(len as u32);
            for code in 0..total {
                let mut seq = Vec::with_capacity(len);
                let mut c = code;
                for _ in 0..len {
                    seq.push(hashes[(c % 3) as usize]);
                    c /= 3;
                }
                let case = format!("case cap={} exhaustive code={} len={}", cap, code, len);
                let mut ctx = Ctx { report: &mut report, prop: &prop, case };
                guarded(&mut ctx, |cx| run_case(cx, cap, Stream::Uniform, 0, 0, Some(&seq)));
            }
            report.stats.add("bounded_exhaustive_sequences", total);
            report.evaluations += total;
        }
    }
    if out.is_empty() {
        println!("{}", report.to_json().dump());
    } else {
        report.write(&out);
    }
}
