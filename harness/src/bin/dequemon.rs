//! E4: random operation sequences on the real intrusive `Deque` (through the `VerifDeque`
//! facade) against a `VecDeque` model: order, length, link invariants, cursor behaviour when the
//! node at the cursor is moved / unlinked / popped, and element drop counts. Meant to be run
//! natively, under ASan and under Miri.

use mini_moka::verif::VerifDeque;
use mmv::json::Json;
use mmv::monitor::{install_panic_hook, norm_loc, take_panic, Violation};
use mmv::report::{Args, Report};
use mmv::rng::Rng;
use mmv::types::{obj_reset, obj_stats, TK};
use std::collections::VecDeque;

#[derive(Clone, Copy, Debug, PartialEq, Eq)]
enum Cur {
    Unset,
    At(usize),
    Done,
}

struct Model {
    /// (handle, element id) front to back
    q: VecDeque<(usize, u32)>,
    cur: Cur,
}

impl Model {
    fn pos(&self, h: usize) -> Option<usize> {
        self.q.iter().position(|x| x.0 == h)
    }
    fn advance(&mut self) {
        self.cur = match self.cur {
            Cur::Unset => Cur::Unset,
            Cur::Done => Cur::Unset,
            Cur::At(h) => match self.pos(h) {
                Some(i) if i + 1 < self.q.len() => Cur::At(self.q[i + 1].0),
                _ => Cur::Done,
            },
        };
    }
    fn next(&mut self) -> Option<u32> {
        if self.cur == Cur::Unset {
            if let Some(f) = self.q.front() {
                self.cur = Cur::At(f.0);
            }
        }
        let e = match self.cur {
            Cur::At(h) => self.pos(h).map(|i| self.q[i].1),
            _ => None,
        };
        self.advance();
        e
    }
    fn before_detach(&mut self, h: usize) {
        if self.cur == Cur::At(h) {
            self.advance();
        }
    }
}

fn run_case(seed: u64, nops: usize, trace: &mut Vec<String>, stats: &mut mmv::monitor::Stats) -> Result<(), (String, String)> {
    obj_reset();
    let mut rng = Rng::new(seed);
    let mut d: VerifDeque<TK> = VerifDeque::new();
    let mut m = Model { q: VecDeque::new(), cur: Cur::Unset };
    let mut next_id = 0u32;
    let mut handles: Vec<usize> = Vec::new(); // every handle ever issued
    let bias_small = rng.chance(1, 2);
    for _ in 0..nops {
        let live: Vec<usize> = m.q.iter().map(|x| x.0).collect();
        let pick_live = |rng: &mut Rng| -> Option<usize> { if live.is_empty() { None } else { Some(live[rng.below(live.len() as u64) as usize]) } };
        let r = rng.below(100);
        let grow = if bias_small { m.q.len() < 3 } else { m.q.len() < 12 };
        if r < if grow { 35 } else { 12 } {
            next_id += 1;
            let h = d.push_back(TK::new(next_id));
            trace.push(format!("push_back {} -> h{}", next_id, h));
            handles.push(h);
            m.q.push_back((h, next_id));
            stats.inc("deque_push_back");
        } else if r < 45 {
            trace.push("pop_front".into());
            let got = d.pop_front().map(|(h, e)| (h, e.id));
            let want = m.q.front().copied();
            if let Some((h, _)) = want {
                m.before_detach(h);
                m.q.pop_front();
            }
            stats.inc("deque_pop_front");
            if got != want {
                return Err(("list:pop_front-mismatch".into(), format!("pop_front returned {:?}, model {:?}", got, want)));
            }
        } else if r < 58 {
            if let Some(h) = pick_live(&mut rng) {
                trace.push(format!("move_to_back h{}", h));
                let is_tail = m.q.back().map(|x| x.0) == Some(h);
                if !is_tail {
                    m.before_detach(h);
                    let i = m.pos(h).unwrap();
                    let x = m.q.remove(i).unwrap();
                    m.q.push_back(x);
                }
                d.move_to_back(h);
                stats.inc("deque_move_to_back");
            }
        } else if r < 64 {
            trace.push("move_front_to_back".into());
            if let Some((h, _)) = m.q.front().copied() {
                if m.q.len() > 1 {
                    m.before_detach(h);
                    let x = m.q.pop_front().unwrap();
                    m.q.push_back(x);
                }
            }
            d.move_front_to_back();
            stats.inc("deque_move_front_to_back");
        } else if r < 74 {
            if let Some(h) = pick_live(&mut rng) {
                trace.push(format!("unlink_and_drop h{}", h));
                m.before_detach(h);
                let i = m.pos(h).unwrap();
                m.q.remove(i);
                d.unlink_and_drop(h);
                stats.inc("deque_unlink_and_drop");
            }
        } else if r < 79 {
            if let Some(h) = pick_live(&mut rng) {
                trace.push(format!("unlink h{}", h));
                m.before_detach(h);
                let i = m.pos(h).unwrap();
                let want = m.q.remove(i).unwrap().1;
                let got = d.unlink(h).map(|e| e.id);
                stats.inc("deque_unlink");
                if got != Some(want) {
                    return Err(("list:unlink-mismatch".into(), format!("unlink returned {:?}, model {}", got, want)));
                }
            }
        } else if r < 90 {
            trace.push("cursor_next".into());
            let got = d.cursor_next().map(|e| e.id);
            let was_at = m.cur;
            let want = m.next();
            stats.inc("deque_cursor_next");
            if matches!(was_at, Cur::At(_)) {
                stats.inc("deque_cursor_steps_mid_iteration");
            }
            if got != want {
                return Err(("list:cursor-mismatch".into(), format!("cursor iteration yielded {:?}, model {:?}", got, want)));
            }
        } else if r < 92 {
            trace.push("reset_cursor".into());
            d.reset_cursor();
            m.cur = Cur::Unset;
        } else if r < 96 {
            // stale handles must be refused, live ones found
            if !handles.is_empty() {
                let h = handles[rng.below(handles.len() as u64) as usize];
                trace.push(format!("contains h{}", h));
                let want = m.pos(h).is_some();
                if d.contains(h) != want {
                    return Err(("list:contains-mismatch".into(), format!("contains(h{}) = {}, model {}", h, !want, want)));
                }
                if let Some(i) = m.pos(h) {
                    let wn = m.q.get(i + 1).map(|x| x.0);
                    if d.next_of(h) != wn {
                        return Err(("list:next-mismatch".into(), format!("next of h{} is {:?}, model {:?}", h, d.next_of(h), wn)));
                    }
                }
            }
        } else {
            trace.push("peek_front".into());
            let got = d.peek_front().map(|(h, e)| (h, e.id));
            if got != m.q.front().copied() {
                return Err(("list:peek-mismatch".into(), format!("peek_front {:?}, model {:?}", got, m.q.front())));
            }
        }
        // after every op: links, order, length, live elements
        let (order, errs) = d.walk();
        if let Some(e) = errs.first() {
            return Err(("list:links".into(), e.clone()));
        }
        let want: Vec<usize> = m.q.iter().map(|x| x.0).collect();
        if order != want || d.len() != m.q.len() {
            return Err(("list:order-or-length".into(), format!("list is {:?} (len {}), model {:?}", order, d.len(), want)));
        }
        let os = obj_stats();
        if os.double_drops > 0 {
            return Err(("objects:double-drop".into(), "an element was dropped twice".into()));
        }
        if os.live_keys != m.q.len() as i64 {
            return Err(("objects:live-count:list".into(), format!("{} nodes linked, {} elements alive", m.q.len(), os.live_keys)));
        }
    }
    stats.add("deque_nodes_left_at_drop", m.q.len() as u64);
    drop(d);
    let os = obj_stats();
    if os.live_keys != 0 || os.double_drops > 0 {
        return Err(("objects:alive-after-drop:list".into(), format!("after dropping the list: {} elements alive, {} double drops", os.live_keys, os.double_drops)));
    }
    Ok(())
}

fn main() {
    install_panic_hook();
    let args = Args::parse();
    let prop = args.str("prop", "C08");
    let seed = args.u64("seed", 1);
    let cases = args.u64("cases", 1000);
    let nops = args.u64("ops", 60) as usize;
    let out = args.str("out", "");
    let mut report = Report { engine: "dequemon".into(), ..Default::default() };
    let replay_seed = args.get("replay").map(|p| {
        let t = std::fs::read_to_string(p).expect("cannot read");
        let l = t.lines().find(|l| l.starts_with("case ")).expect("no case line").to_string();
        let mut it = l.split_whitespace().skip(1);
        let s: u64 = it.next().unwrap().trim_start_matches("seed=").parse().unwrap();
        let n: usize = it.next().unwrap().trim_start_matches("ops=").parse().unwrap();
        (s, n)
    });
    let mut master = Rng::new(seed ^ 0xDE9E);
    let n = if replay_seed.is_some() { 1 } else { cases };
    for i in 0..n {
        let (cseed, cops) = replay_seed.unwrap_or((master.next_u64() >> 8, nops));
        let mut trace = Vec::new();
        let mut stats = mmv::monitor::Stats::default();
        let r = std::panic::catch_unwind(std::panic::AssertUnwindSafe(|| run_case(cseed, cops, &mut trace, &mut stats)));
        report.evaluations += 1;
        report.stats.merge(&stats);
        for p in ["C08", "C11"] {
            report.distinct.entry(p.into()).or_default().push(cseed);
        }
        let failure = match r {
            Ok(Ok(())) => None,
            Ok(Err(e)) => Some(e),
            Err(_) => {
                let (loc, msg) = take_panic().unwrap_or_else(|| ("?".into(), "?".into()));
                Some((format!("panic@{}", norm_loc(&loc)), format!("panicked at {}: {}", loc, msg)))
            }
        };
        if let Some((sig, detail)) = failure {
            report.stats.inc("violating_cases");
            let props: Vec<&'static str> = if sig.starts_with("objects") { vec!["C11", "C08"] } else { vec!["C08", "C11"] };
            if (prop == "all" || props.iter().any(|p| *p == prop)) && report.violations.len() < 3 {
                let v = Violation { props, sig, detail, op_index: trace.len() };
                let text = format!("# engine dequemon\ncase seed={} ops={}\n# {}\n", cseed, cops, trace.join("; "));
                report.violations.push(Report::violation_json(&v, &text, trace.len()));
            }
        }
        if i % 97 == 0 && report.samples.len() < 3 {
            report.samples.push(Json::Str(format!("case seed={} ops={}: {}", cseed, cops, trace.iter().take(25).cloned().collect::<Vec<_>>().join("; "))));
        }
    }
    if replay_seed.is_some() {
        for v in &report.violations {
            println!("REPLAY-VIOLATION {}", v.dump());
        }
        std::process::exit(if report.violations.is_empty() { 0 } else { 1 });
    }
    if out.is_empty() {
        println!("{}", report.to_json().dump());
    } else {
        report.write(&out);
    }
}
