//! "Cache under test": a uniform driver over `unsync::Cache` and `sync::Cache` with the mock
//! clock installed, plus conversion of the hook snapshots into harness-side values with
//! timestamps relative to the installation of the clock.

use crate::hist::{Config, Kind, Pred};
use crate::types::{TestBuildHasher, TK, TV};
use mini_moka::sync::ConcurrentCacheExt;
use mini_moka::verif::{MockClock, Snapshot, VerifSketch};
use std::time::{Duration, Instant};

pub type UCache = mini_moka::unsync::Cache<TK, TV, TestBuildHasher>;
pub type SCache = mini_moka::sync::Cache<TK, TV, TestBuildHasher>;

#[derive(Clone, Debug, PartialEq, Eq)]
pub struct ESnap {
    pub key: u32,
    pub vid: u64,
    pub weight: u32,
    pub accounted: Option<u32>,
    pub admitted: bool,
    pub dirty: bool,
    pub la: Option<u64>,
    pub lm: Option<u64>,
    pub info: usize,
    pub ao: Option<(usize, usize)>,
    pub wo: Option<usize>,
}

#[derive(Clone, Debug, PartialEq, Eq)]
pub struct NSnap {
    pub addr: usize,
    pub key: u32,
    pub hash: u64,
    pub info: usize,
    pub ts: Option<u64>,
}

#[derive(Clone, Debug, Default, PartialEq, Eq)]
pub struct Snap {
    /// sorted by key
    pub entries: Vec<ESnap>,
    pub window: Vec<NSnap>,
    pub probation: Vec<NSnap>,
    pub protected: Vec<NSnap>,
    pub write_order: Vec<NSnap>,
    pub deque_errors: Vec<String>,
    pub entry_count: u64,
    pub weighted_size: u64,
    pub cap: Option<u64>,
    pub rlen: usize,
    pub wlen: usize,
    pub sketch_enabled: bool,
    pub valid_after: Option<u64>,
    pub running: bool,
}

impl Snap {
    pub fn entry(&self, key: u32) -> Option<&ESnap> {
        self.entries.iter().find(|e| e.key == key)
    }
    pub fn held_weight(&self) -> u64 {
        self.entries.iter().map(|e| e.weight as u64).sum()
    }
    pub fn keys(&self) -> Vec<u32> {
        self.entries.iter().map(|e| e.key).collect()
    }
}

pub fn convert(s: Snapshot, base: Instant) -> Snap {
    let rel = |t: Option<Instant>| t.map(|t| t.checked_duration_since(base).map(|d| d.as_nanos() as u64).unwrap_or(0));
    let mut errors = Vec::new();
    let mut conv = |name: &str, d: mini_moka::verif::DequeSnap| -> Vec<NSnap> {
        for e in d.errors {
            errors.push(format!("{}: {}", name, e));
        }
        d.nodes
            .into_iter()
            .map(|n| NSnap {
                addr: n.addr,
                key: n.key as u32,
                hash: n.hash,
                info: n.info_addr,
                ts: rel(n.timestamp),
            })
            .collect()
    };
    let window = conv("window", s.window);
    let probation = conv("probation", s.probation);
    let protected = conv("protected", s.protected);
    let write_order = conv("write_order", s.write_order);
    let mut entries: Vec<ESnap> = s
        .entries
        .into_iter()
        .map(|e| ESnap {
            key: e.key as u32,
            vid: e.value,
            weight: e.weight,
            accounted: e.accounted_weight,
            admitted: e.admitted,
            dirty: e.dirty,
            la: rel(e.last_accessed),
            lm: rel(e.last_modified),
            info: e.info_addr,
            ao: e.ao_node,
            wo: e.wo_node,
        })
        .collect();
    entries.sort_by_key(|e| e.key);
    Snap {
        entries,
        window,
        probation,
        protected,
        write_order,
        deque_errors: errors,
        entry_count: s.entry_count,
        weighted_size: s.weighted_size,
        cap: s.max_capacity,
        rlen: s.read_ch_len,
        wlen: s.write_ch_len,
        sketch_enabled: s.sketch_enabled,
        valid_after: rel(s.valid_after),
        running: s.is_sync_running,
    }
}

/// The order in which the five builder setters are called: the `n`-th permutation of
/// (max_capacity, initial_capacity, weigher, time_to_live, time_to_idle). A setter must not disturb
/// what an earlier one stored, whatever the order.
pub fn setter_order(n: u64) -> [u8; 5] {
    let mut items = vec![0u8, 1, 2, 3, 4];
    let mut n = n % 120;
    let mut out = [0u8; 5];
    for (i, slot) in out.iter_mut().enumerate() {
        let f: u64 = (1..=(4 - i as u64)).product::<u64>().max(1);
        *slot = items.remove((n / f) as usize);
        n %= f;
    }
    out
}

/// Derived from the configuration itself, so that histories need no extra field to be replayed.
pub fn setter_order_of(cfg: &Config) -> [u8; 5] {
    let h = match cfg.hasher {
        crate::types::HashMode::Mix(s) => 3 + s,
        crate::types::HashMode::Identity => 1,
        crate::types::HashMode::Collide2 => 2,
    };
    setter_order(h.wrapping_mul(31) ^ cfg.cap.unwrap_or(5).wrapping_mul(7) ^ (cfg.keys as u64) ^ cfg.ttl.unwrap_or(11).wrapping_mul(13) ^ cfg.tti.unwrap_or(17).wrapping_mul(19))
}

macro_rules! apply_setters {
    ($b:ident, $cfg:ident) => {
        for s in setter_order_of($cfg) {
            match s {
                0 => {
                    if let Some(c) = $cfg.cap {
                        $b = $b.max_capacity(c);
                    }
                }
                1 => {
                    if let Some(ic) = $cfg.initial_capacity {
                        $b = $b.initial_capacity(ic);
                    }
                }
                2 => {
                    if $cfg.weigher {
                        $b = $b.weigher(|_k: &TK, v: &TV| {
                            crate::types::fault_point(crate::types::SITE_WEIGHER);
                            v.weight
                        });
                    }
                }
                3 => {
                    if let Some(t) = $cfg.ttl {
                        $b = $b.time_to_live(Duration::from_nanos(t));
                    }
                }
                _ => {
                    if let Some(t) = $cfg.tti {
                        $b = $b.time_to_idle(Duration::from_nanos(t));
                    }
                }
            }
        }
    };
}

pub fn build_unsync(cfg: &Config) -> UCache {
    let mut b = mini_moka::unsync::Cache::builder();
    apply_setters!(b, cfg);
    b.build_with_hasher(TestBuildHasher(cfg.hasher))
}

pub fn build_sync(cfg: &Config) -> SCache {
    let mut b = mini_moka::sync::Cache::builder();
    apply_setters!(b, cfg);
    b.build_with_hasher(TestBuildHasher(cfg.hasher))
}

pub enum Inner {
    U(UCache),
    S(SCache),
}

pub struct Cut {
    pub inner: Inner,
    pub clock: MockClock,
    pub base: Instant,
}

impl Cut {
    pub fn new(cfg: &Config) -> Cut {
        match cfg.kind {
            Kind::Unsync => {
                let mut c = build_unsync(cfg);
                let clock = c.verif_install_mock_clock();
                let base = clock.now();
                Cut { inner: Inner::U(c), clock, base }
            }
            Kind::Sync => {
                let c = build_sync(cfg);
                let clock = c.verif_install_mock_clock();
                let base = clock.now();
                Cut { inner: Inner::S(c), clock, base }
            }
        }
    }

    pub fn is_sync(&self) -> bool {
        matches!(self.inner, Inner::S(_))
    }

    pub fn now(&self) -> u64 {
        self.clock.now().duration_since(self.base).as_nanos() as u64
    }

    pub fn advance(&self, ns: u64) {
        self.clock.advance(Duration::from_nanos(ns));
    }

    pub fn insert(&mut self, k: u32, vid: u64, w: u32) {
        match &mut self.inner {
            Inner::U(c) => c.insert(TK::new(k), TV::new(vid, w)),
            Inner::S(c) => c.insert(TK::new(k), TV::new(vid, w)),
        }
    }

    pub fn get(&mut self, k: u32) -> Option<u64> {
        let p = TK::probe(k);
        match &mut self.inner {
            Inner::U(c) => c.get(&p).map(|v| v.vid),
            Inner::S(c) => c.get(&p).map(|v| v.vid),
        }
    }

    pub fn contains(&mut self, k: u32) -> bool {
        let p = TK::probe(k);
        match &mut self.inner {
            Inner::U(c) => c.contains_key(&p),
            Inner::S(c) => c.contains_key(&p),
        }
    }

    pub fn iter(&mut self) -> Vec<(u32, u64)> {
        match &mut self.inner {
            Inner::U(c) => c.iter().map(|(k, v)| (k.id, v.vid)).collect(),
            Inner::S(c) => c.iter().map(|e| (e.key().id, e.value().vid)).collect(),
        }
    }

    /// Iterates with a clock advance after the first item: (items before, items after).
    pub fn iter_advance(&mut self, ns: u64) -> (Vec<(u32, u64)>, Vec<(u32, u64)>) {
        let clock = self.clock.clone();
        let mut before = Vec::new();
        let mut after = Vec::new();
        match &mut self.inner {
            Inner::U(c) => {
                let mut it = c.iter();
                if let Some((k, v)) = it.next() {
                    before.push((k.id, v.vid));
                }
                clock.advance(Duration::from_nanos(ns));
                for (k, v) in it {
                    after.push((k.id, v.vid));
                }
            }
            Inner::S(c) => {
                let mut it = c.iter();
                if let Some(e) = it.next() {
                    before.push((e.key().id, e.value().vid));
                }
                clock.advance(Duration::from_nanos(ns));
                for e in it {
                    after.push((e.key().id, e.value().vid));
                }
            }
        }
        (before, after)
    }

    pub fn invalidate(&mut self, k: u32) {
        let p = TK::probe(k);
        match &mut self.inner {
            Inner::U(c) => c.invalidate(&p),
            Inner::S(c) => c.invalidate(&p),
        }
    }

    pub fn invalidate_all(&mut self) {
        match &mut self.inner {
            Inner::U(c) => c.invalidate_all(),
            Inner::S(c) => c.invalidate_all(),
        }
    }

    /// unsync only; a no-op on the concurrent cache (which has no such method).
    pub fn invalidate_if(&mut self, p: Pred) {
        if let Inner::U(c) = &mut self.inner {
            c.invalidate_entries_if(move |k, v| {
                crate::types::fault_point(crate::types::SITE_PRED);
                p.eval(k.id, v.vid, v.weight)
            });
        }
    }

    pub fn sync(&mut self) {
        if let Inner::S(c) = &mut self.inner {
            c.sync();
        }
    }

    pub fn counters(&self) -> (u64, u64) {
        match &self.inner {
            Inner::U(c) => (c.entry_count(), c.weighted_size()),
            Inner::S(c) => (c.entry_count(), c.weighted_size()),
        }
    }

    pub fn snapshot(&self) -> Snap {
        let raw = match &self.inner {
            Inner::U(c) => c.verif_snapshot(|k| k.id as u64, |v| v.vid),
            Inner::S(c) => c.verif_snapshot(|k| k.id as u64, |v| v.vid),
        };
        convert(raw, self.base)
    }

    pub fn hash(&self, k: u32) -> u64 {
        let p = TK::probe(k);
        match &self.inner {
            Inner::U(c) => c.verif_hash(&p),
            Inner::S(c) => c.verif_hash(&p),
        }
    }

    pub fn freq(&self, k: u32) -> u8 {
        let h = self.hash(k);
        match &self.inner {
            Inner::U(c) => c.verif_frequency(h),
            Inner::S(c) => c.verif_frequency(h),
        }
    }

    pub fn sketch_table_len(&self) -> usize {
        match &self.inner {
            Inner::U(c) => c.verif_sketch_table_len(),
            Inner::S(c) => c.verif_sketch_table_len(),
        }
    }

    pub fn sketch(&self) -> VerifSketch {
        match &self.inner {
            Inner::U(c) => c.verif_sketch(),
            Inner::S(c) => c.verif_sketch(),
        }
    }
}
